//! C08 — fast fields return exactly the values that were indexed.
//!
//! Four streams, all compared with a plain `Vec<Vec<value>>` (row -> values) model:
//!  * `columnar`: `ColumnarWriter` -> `serialize` -> `ColumnarReader` -> every accessor;
//!  * `merge`   : `merge_columnar` with `Stack` / `Shuffled` (alive bitsets) over 1–5 inputs;
//!  * `tantivy` : schema with FAST fields of all types -> `SegmentReader::fast_fields()`, then
//!                `IndexWriter::merge` (with deletes) and the same comparison again;
//!  * `rawcodec`: each u64 codec forced in turn (`Linear` is otherwise only used for offsets).
#[path = "c08_util/mod.rs"]
mod util;

use std::collections::{BTreeMap, BTreeSet};
use std::net::Ipv6Addr;

use serde_json::{json, Value as J};
use tantivy_columnar::column_values::{load_u64_based_column_values, serialize_u64_based_column_values, CodecType};
use tantivy_columnar::{
    merge_columnar, ColumnType, ColumnValues, ColumnarReader, ColumnarWriter, DynamicColumn, DynamicColumnHandle,
    MergeRowOrder, NumericalType, RowAddr, ShuffleMergeOrder, StackMergeOrder,
};
use tantivy_common::{BitSet, DateTime, OwnedBytes, ReadOnlyBitSet};
use tvmon::report::*;
use tvmon::rng::Rng;
use util::check::*;
use util::*;

// ---------------------------------------------------------------------------------------------
// observation of the serialized form

fn codec_name(code: Option<u8>) -> &'static str {
    match code {
        Some(0) => "bitpacked",
        Some(1) => "linear",
        Some(2) => "blockwise_linear",
        Some(_) => "unknown",
        None => "none",
    }
}

struct Layout {
    card: &'static str,
    val_codec: &'static str,
    off_codec: &'static str,
}

/// `[column index][column values][index len: u32]`; index = `[cardinality][..]`; multivalued
/// index (v2) = `[optional index][start offsets column][optional len: u32]`; a column of values
/// starts with its codec byte. Dictionary columns: `[dictionary][column][dictionary len: u32]`.
fn parse_layout(bytes: &[u8], ct: ColumnType) -> Option<Layout> {
    let mut b = bytes;
    if matches!(ct, ColumnType::Str | ColumnType::Bytes) {
        if b.len() < 4 {
            return None;
        }
        let dl = u32::from_le_bytes(b[b.len() - 4..].try_into().ok()?) as usize;
        b = b.get(dl..b.len() - 4)?;
    }
    if b.len() < 5 {
        return None;
    }
    let il = u32::from_le_bytes(b[b.len() - 4..].try_into().ok()?) as usize;
    let body = &b[..b.len() - 4];
    let idx = body.get(..il)?;
    let vals = body.get(il..)?;
    let card = match idx.first()? {
        0 => "full",
        1 => "optional",
        2 => "multivalued",
        _ => "unknown",
    };
    let val_codec = if ct == ColumnType::IpAddr { "u128_compact_space" } else { codec_name(vals.first().copied()) };
    let off_codec = if card == "multivalued" {
        let r = &idx[1..];
        if r.len() >= 4 {
            let ol = u32::from_le_bytes(r[r.len() - 4..].try_into().ok()?) as usize;
            codec_name(r[..r.len() - 4].get(ol).copied())
        } else {
            "none"
        }
    } else {
        "-"
    };
    Some(Layout { card, val_codec, off_codec })
}

/// inferred from the documented rule (a 65 536-row block is dense from 5 120 non-null rows on);
/// the block variant itself is not observable through the public API
fn observe_optional_blocks(rep: &mut Report, counts: &[u32]) {
    for blk in counts.chunks(65_536) {
        let k = blk.iter().filter(|c| **c > 0).count();
        let label = match k {
            0 => "empty",
            1..=5118 => "sparse",
            5119 => "sparse@5119",
            5120 => "dense@5120",
            5121 => "dense@5121",
            _ if k == blk.len() => "dense(all)",
            _ => "dense",
        };
        rep.observe("optional-index blocks (inferred from counts)", label);
    }
    rep.observe("65536-row blocks per column", format!("{}", counts.len().div_ceil(65_536)));
}

/// observes codec / cardinality / sizes, returns the shape key
fn observe_column(rep: &mut Report, pipe: &str, handle: &DynamicColumnHandle, data: &ColData, ty: &str, extra: &str) -> String {
    let n = data.n_rows();
    let total = data.total();
    let layout = handle
        .file_slice()
        .read_bytes()
        .ok()
        .and_then(|b| parse_layout(b.as_slice(), handle.column_type()));
    let (card, vc, oc) = match &layout {
        Some(l) => (l.card, l.val_codec, l.off_codec),
        None => ("?", "?", "?"),
    };
    rep.observe("values codec (from column header)", format!("{ty}:{vc}"));
    if oc != "-" {
        rep.observe("multivalue start-offsets codec", oc);
    }
    rep.observe("cardinality (from column header)", format!("{pipe}:{ty}:{card}"));
    rep.observe("rows size class", size_class(n));
    rep.observe("values size class", size_class(total));
    if total > 512 {
        rep.observe("value columns longer than one 512 block", format!("{vc}:{}", if total % 512 == 0 { "whole blocks" } else { "partial last block" }));
    }
    if card != "full" {
        observe_optional_blocks(rep, &data.counts());
    }
    format!("{pipe}|{ty}|{card}|{vc}|{oc}|r{}|v{}|{extra}", size_class(n), size_class(total))
}

fn column_type_of(cat: Cat, nt: Option<NumericalType>) -> ColumnType {
    match cat {
        Cat::Num => ColumnType::from(nt.unwrap_or(NumericalType::I64)),
        Cat::Bool => ColumnType::Bool,
        Cat::Date => ColumnType::DateTime,
        Cat::Ip => ColumnType::IpAddr,
        Cat::Str => ColumnType::Str,
        Cat::Bytes => ColumnType::Bytes,
    }
}

fn cat_of(ct: ColumnType) -> Cat {
    match ct {
        ColumnType::I64 | ColumnType::U64 | ColumnType::F64 => Cat::Num,
        ColumnType::Bool => Cat::Bool,
        ColumnType::DateTime => Cat::Date,
        ColumnType::IpAddr => Cat::Ip,
        ColumnType::Str => Cat::Str,
        ColumnType::Bytes => Cat::Bytes,
    }
}

fn numerical_type_of(ct: ColumnType) -> Option<NumericalType> {
    match ct {
        ColumnType::I64 => Some(NumericalType::I64),
        ColumnType::U64 => Some(NumericalType::U64),
        ColumnType::F64 => Some(NumericalType::F64),
        _ => None,
    }
}

// ---------------------------------------------------------------------------------------------
// writing a model table with the real writer

fn record_row(w: &mut ColumnarWriter, col: &MCol, doc: usize) {
    let d = doc as u32;
    let name = col.name.as_str();
    match &col.data {
        ColData::Num(r) => {
            for v in &r[doc] {
                match *v {
                    Num::I(x) => w.record_numerical(d, name, x),
                    Num::U(x) => w.record_numerical(d, name, x),
                    Num::F(x) => w.record_numerical(d, name, x),
                }
            }
        }
        ColData::Bool(r) => r[doc].iter().for_each(|v| w.record_bool(d, name, *v)),
        ColData::Date(r) => r[doc].iter().for_each(|v| w.record_datetime(d, name, DateTime::from_timestamp_nanos(*v))),
        ColData::Ip(r) => r[doc].iter().for_each(|v| w.record_ip_addr(d, name, Ipv6Addr::from(*v))),
        ColData::Str(r) => r[doc].iter().for_each(|v| w.record_str(d, name, v)),
        ColData::Bytes(r) => r[doc].iter().for_each(|v| w.record_bytes(d, name, v)),
    }
}

/// serialises the table; `perm` = old row -> new row
fn write_table(cols: &[MCol], n: usize, doc_major: bool, perm: Option<&[u32]>) -> Result<Vec<u8>, String> {
    let mut w = ColumnarWriter::default();
    for c in cols {
        if c.declared {
            let ct = column_type_of(c.data.cat(), c.forced);
            w.record_column_type(&c.name, ct, false);
        }
    }
    if doc_major {
        for doc in 0..n {
            for c in cols {
                record_row(&mut w, c, doc);
            }
        }
    } else {
        for c in cols {
            for doc in 0..n {
                record_row(&mut w, c, doc);
            }
        }
    }
    let mut buf = Vec::new();
    w.serialize(n as u32, perm, &mut buf).map_err(|e| e.to_string())?;
    Ok(buf)
}

static I64MAX_REPORTS: std::sync::atomic::AtomicUsize = std::sync::atomic::AtomicUsize::new(0);

/// `want` = first of (i64, u64, f64) that can represent the values (README "Coercion rules").
/// `at_i64_max`: a u64 value equal to i64::MAX is present and i64 is the documented answer.
fn type_pick_ok(ck: &Ck, rep: &mut Report, got: NumericalType, want: NumericalType, quirk: Quirk) -> bool {
    if got == want {
        return true;
    }
    if quirk == Quirk::AtI64MaxNoNeg && got == NumericalType::U64 {
        // no negatives: u64 holds everything exactly as well (pinned by an in-repo unit test)
        rep.observe("u64 value == i64::MAX (no negatives): picked u64 instead of i64, values exact", ck.pipe.to_string());
        return true;
    }
    if quirk == Quirk::AtI64MaxWithNeg && got == NumericalType::F64 {
        // Known defect class, own signature: with a negative value present the column falls
        // through to f64 although i64 represents every value; integers above 2^53 become inexact.
        rep.count("i64max_type_pick_defect_occurrences", 1);
        if I64MAX_REPORTS.fetch_add(1, std::sync::atomic::Ordering::Relaxed) < 8 {
            rep.violation(
                "numeric_type_pick:u64-value-equal-to-i64-max-with-negatives-coerced-to-f64-instead-of-i64",
                json!({"pipe": ck.pipe, "column": ck.col, "picked": "f64", "documented_first_compatible": "i64", "context": ck.info}),
            );
        }
        // keep checking the values under the type that was actually picked
        return true;
    }
    ck.viol(rep, "numeric_type_pick", num_type_name(got), json!({"picked": num_type_name(got), "documented_first_compatible": num_type_name(want)}));
    false
}

/// `write_table` with a panic inside the writer turned into a violation that carries the input
fn write_table_guarded(cols: &[MCol], n: usize, doc_major: bool, perm: Option<&[u32]>, what: &str, info: &J, rep: &mut Report) -> Option<Vec<u8>> {
    match guarded(|| write_table(cols, n, doc_major, perm)) {
        Ok(Ok(b)) => Some(b),
        Ok(Err(e)) => {
            rep.violation(format!("api-error:{what}:serialize"), json!({"error": e, "context": info}));
            None
        }
        Err(p) if p.in_harness() => {
            rep.harness_error(format!("{what}: panic in harness at {}: {}", p.location, p.message));
            None
        }
        Err(p) => {
            let ip_cols: Vec<J> = cols
                .iter()
                .filter_map(|c| match &c.data {
                    ColData::Ip(r) => {
                        let set: BTreeSet<u128> = r.iter().flatten().copied().collect();
                        let v: Vec<String> = set.iter().take(6).chain(set.iter().rev().take(6)).map(|x| format!("{x:#x}")).collect();
                        Some(json!({"name": c.name, "values": c.val_profile, "distinct": set.len(), "total": c.data.total(),
                            "min": set.iter().next().map(|x| format!("{x:#x}")), "max": set.iter().last().map(|x| format!("{x:#x}")), "lowest_and_highest": v}))
                    }
                    _ => None,
                })
                .collect();
            rep.violation(p.sig(), json!({"panic_location": p.location, "panic_message": p.message, "during": what, "ip_columns": ip_cols, "context": info}));
            None
        }
    }
}

/// numeric type the writer is documented to pick for this model column
fn model_num_type(c: &MCol) -> (NumericalType, Quirk) {
    if let Some(t) = c.forced {
        return (t, Quirk::None);
    }
    match &c.data {
        ColData::Num(r) => writer_num_type(r.iter().flatten().copied()),
        _ => (NumericalType::I64, Quirk::None),
    }
}

/// model column as it is expected to be read back (numerics coerced to the column type)
fn expected_read(c: &MCol, actual_num: Option<NumericalType>) -> ColData {
    match (&c.data, actual_num) {
        (ColData::Num(r), Some(t)) => ColData::Num(coerce_rows(r, t)),
        _ => c.data.clone(),
    }
}

fn gen_model_col(rng: &mut Rng, name: String, cat: Cat, n: usize, max_total: usize, allow_forced: bool) -> MCol {
    let idx_profile = pick_idx_profile(rng);
    let counts = gen_counts(rng, n, idx_profile, max_total);
    let mut forced = None;
    let mut declared = rng.chance(1, 4);
    let flavor = if cat == Cat::Num && allow_forced && rng.chance(1, 3) {
        let f = *rng.pick(&[NumFlavor::U64, NumFlavor::I64, NumFlavor::F64]);
        forced = Some(match f {
            NumFlavor::U64 => NumericalType::U64,
            NumFlavor::I64 => NumericalType::I64,
            _ => NumericalType::F64,
        });
        declared = true;
        f
    } else {
        *rng.pick(&NUM_FLAVORS)
    };
    if cat == Cat::Num && forced.is_none() {
        // declaring a numeric column means forcing its type
        declared = false;
    }
    let (data, val_profile) = gen_coldata(rng, cat, flavor, &counts);
    MCol { name, forced, declared, data, val_profile, idx_profile }
}

/// 21-100 (name, category) pairs: names interleave in sort order (common prefixes, json-style
/// `\u{1}` paths) and a good share of the names carries 2-4 type categories, so the writer has
/// to order more than 20 columns by (name, type)
fn many_column_specs(rng: &mut Rng) -> Vec<(String, Cat)> {
    let target = *rng.pick(&[21usize, 22, 25, 30, 40, 64, 100]);
    let stems = ["a", "a\u{1}b", "a\u{1}b\u{1}c", "ab", "a0", "b", "j\u{1}k", "j\u{1}k\u{1}leaf", "j\u{1}kk", "j", "shared", "z", "A", "\u{e9}"];
    let all = [Cat::Num, Cat::Bytes, Cat::Str, Cat::Bool, Cat::Ip, Cat::Date];
    let mut specs: Vec<(String, Cat)> = vec![];
    let mut guard = 0;
    while specs.len() < target && guard < 2000 {
        guard += 1;
        let stem = *rng.pick(&stems);
        let name = if rng.chance(1, 3) { stem.to_string() } else { format!("{stem}{}", rng.below(8)) };
        let ncat = 1 + rng.weighted(&[40, 30, 18, 12]);
        let mut cats = all.to_vec();
        rng.shuffle(&mut cats);
        for cat in cats.into_iter().take(ncat) {
            if specs.len() < target && !specs.contains(&(name.clone(), cat)) {
                specs.push((name.clone(), cat));
            }
        }
    }
    rng.shuffle(&mut specs);
    specs
}

fn wide_class(n: usize) -> &'static str {
    match n {
        0..=20 => "<=20",
        21..=40 => "21-40",
        41..=70 => "41-70",
        _ => "71-100",
    }
}

// ---------------------------------------------------------------------------------------------
// stream 1: ColumnarWriter -> bytes -> ColumnarReader

fn lenient_u64_check(ck: &Ck, handle: &DynamicColumnHandle, exp: &ColData, rep: &mut Report) -> bool {
    // `open_u64_lenient`: the order-preserving u64 image of the typed values
    let keys: Option<Vec<Vec<u64>>> = match exp {
        ColData::Num(r) => Some(
            r.iter()
                .map(|row| {
                    row.iter()
                        .map(|v| match *v {
                            Num::I(x) => (x as u64) ^ (1 << 63),
                            Num::U(x) => x,
                            Num::F(x) => f64_key(x),
                        })
                        .collect()
                })
                .collect(),
        ),
        ColData::Bool(r) => Some(r.iter().map(|row| row.iter().map(|b| *b as u64).collect()).collect()),
        ColData::Date(r) => Some(r.iter().map(|row| row.iter().map(|x| (*x as u64) ^ (1 << 63)).collect()).collect()),
        _ => None,
    };
    let Some(keys) = keys else { return true };
    match handle.open_u64_lenient() {
        Ok(Some(col)) => {
            for (doc, e) in keys.iter().enumerate() {
                let got: Vec<u64> = col.values_for_doc(doc as u32).collect();
                if &got != e {
                    ck.viol(rep, "open_u64_lenient", exp.cat().name(), json!({"doc": doc, "got": got.iter().take(8).collect::<Vec<_>>(), "expected": e.iter().take(8).collect::<Vec<_>>()}));
                    return false;
                }
            }
            true
        }
        Ok(None) => {
            ck.viol(rep, "open_u64_lenient", exp.cat().name(), json!("returned None"));
            false
        }
        Err(e) => {
            ck.viol(rep, "api-error:open_u64_lenient", exp.cat().name(), json!(e.to_string()));
            false
        }
    }
}

fn columnar_case(case: u64, rng: &mut Rng, rep: &mut Report) {
    // one case in ~9 is a wide table: 21-100 columns, many names shared by 2-4 type categories
    let many = case % 12 == 5 || rng.chance(1, 16);
    let big = !many && rng.chance(if thorough() { 10 } else { 14 }, 100);
    let n = if many { *rng.pick(&[1usize, 2, 17, 64, 65, 130, 300, 513]) } else { gen_num_rows(rng, big) };
    let max_total = if n >= 60_000 { 260_000 } else if many { 1500 } else { 60_000 };
    let mut cols: Vec<MCol> = vec![];
    if many {
        for (name, cat) in many_column_specs(rng) {
            cols.push(gen_model_col(rng, name, cat, n, max_total, true));
        }
        rep.observe("wide tables (columns per columnar)", format!("columnar:{}", wide_class(cols.len())));
    } else {
        let ncols = if n >= 60_000 { rng.urange(1, 2) } else { rng.urange(1, 6) };
        let mut used: BTreeSet<(String, Cat)> = BTreeSet::new();
        for i in 0..ncols {
            let cat = pick_cat(rng);
            // names: plain, json-like path with the \u{1} separator, or shared between categories
            let name = match rng.below(6) {
                0 => "shared".to_string(),
                1 => format!("j\u{1}k{i}"),
                2 => format!("j\u{1}k{i}\u{1}leaf"),
                _ => format!("c{i}"),
            };
            if !used.insert((name.clone(), cat)) {
                continue;
            }
            cols.push(gen_model_col(rng, name, cat, n, max_total, true));
        }
    }
    let doc_major = rng.bool();
    let perm: Option<Vec<u32>> = if n > 0 && n <= 6000 && rng.chance(1, 5) {
        let mut p: Vec<u32> = (0..n as u32).collect();
        match rng.below(3) {
            0 => p.reverse(),
            _ => rng.shuffle(&mut p),
        }
        Some(p)
    } else {
        None
    };
    let info = json!({"stream": "columnar", "case": case, "num_rows": n, "doc_major": doc_major, "permuted": perm.is_some(),
        "columns": cols.iter().map(|c| json!({"name": c.name, "cat": c.data.cat().name(), "values": c.val_profile, "index": c.idx_profile, "forced": c.forced.map(num_type_name), "declared": c.declared, "num_values": c.data.total()})).collect::<Vec<_>>()});
    if case < 2 {
        rep.sample(info.clone());
    }
    let Some(bytes) = write_table_guarded(&cols, n, doc_major, perm.as_deref(), "columnar", &info, rep) else {
        return;
    };
    rep.count("columnar_bytes_written", bytes.len() as u64);
    let reader = match ColumnarReader::open(bytes) {
        Ok(r) => r,
        Err(e) => {
            rep.violation("api-error:columnar:open", json!({"error": e.to_string(), "context": info}));
            return;
        }
    };
    if reader.num_docs() as usize != n {
        rep.violation("columnar:reader_num_docs", json!({"got": reader.num_docs(), "context": info}));
        return;
    }
    // expected rows after the optional permutation
    if let Some(p) = &perm {
        let mut inv = vec![(0usize, 0usize); n];
        for (old, new) in p.iter().enumerate() {
            inv[*new as usize] = (0, old);
        }
        for c in cols.iter_mut() {
            c.data = ColData::gather(c.data.cat(), &[Some(&c.data)], &inv);
        }
    }
    // the set of columns
    let listed: Vec<(String, ColumnType)> = match reader.list_columns() {
        Ok(l) => l.into_iter().map(|(n, h)| (n, h.column_type())).collect(),
        Err(e) => {
            rep.violation("api-error:columnar:list_columns", json!({"error": e.to_string(), "context": info}));
            return;
        }
    };
    let listed_cats: BTreeSet<(String, Cat)> = listed.iter().map(|(n, t)| (n.clone(), cat_of(*t))).collect();
    let expected_cats: BTreeSet<(String, Cat)> =
        cols.iter().filter(|c| c.declared || c.data.total() > 0).map(|c| (c.name.clone(), c.data.cat())).collect();
    if listed_cats != expected_cats || listed.len() != expected_cats.len() || reader.num_columns() != listed.len() {
        rep.violation(
            "columnar:column_set",
            json!({"listed": listed.iter().map(|(n, t)| format!("{n}:{t}")).collect::<Vec<_>>(), "expected": expected_cats.iter().map(|(n, c)| format!("{n}:{}", c.name())).collect::<Vec<_>>(), "num_columns": reader.num_columns(), "context": info}),
        );
        return;
    }
    for c in &cols {
        let cat = c.data.cat();
        if !expected_cats.contains(&(c.name.clone(), cat)) {
            // never recorded: must be absent
            rep.eval();
            rep.observe("column without values and undeclared is absent", "yes");
            continue;
        }
        let handles = match reader.read_columns(&c.name) {
            Ok(h) => h,
            Err(e) => {
                rep.violation("api-error:columnar:read_columns", json!({"error": e.to_string(), "context": info}));
                return;
            }
        };
        let Some(handle) = handles.iter().find(|h| cat_of(h.column_type()) == cat) else {
            rep.violation("columnar:read_columns_missing", json!({"column": c.name, "context": info}));
            return;
        };
        rep.eval();
        let ck = Ck { pipe: "columnar", col: &c.name, info: &info, sub: "" };
        // numeric type pick
        let mut actual_nt = None;
        if cat == Cat::Num {
            let (want, ambiguous) = model_num_type(c);
            let got = numerical_type_of(handle.column_type()).unwrap();
            rep.observe("numeric type picked by the writer", format!("{}{}", num_type_name(got), if ambiguous != Quirk::None { " (u64 value == i64::MAX)" } else { "" }));
            if !type_pick_ok(&ck, rep, got, want, ambiguous) {
                continue;
            }
            actual_nt = Some(got);
        }
        let exp = expected_read(c, actual_nt);
        let dc: DynamicColumn = match handle.open() {
            Ok(d) => d,
            Err(e) => {
                ck.viol(rep, "api-error:open", cat.name(), json!(e.to_string()));
                continue;
            }
        };
        let ty = dyn_type_name(&dc);
        let shape = observe_column(rep, "columnar", handle, &exp, &ty, &format!("{}|{}|perm{}", c.val_profile, c.idx_profile, perm.is_some() as u8));
        if !check_dynamic(&ck, &dc, &exp, DictMode::Exact, rng, rep) {
            continue;
        }
        if !lenient_u64_check(&ck, handle, &exp, rep) {
            continue;
        }
        if dc.num_values() as usize != exp.total() {
            ck.viol(rep, "dynamic_num_values", cat.name(), json!({"got": dc.num_values(), "expected": exp.total()}));
            continue;
        }
        if exp.non_constant() || dc.get_cardinality() != tantivy_columnar::Cardinality::Full {
            rep.nontrivial(shape);
        }
    }
}

// ---------------------------------------------------------------------------------------------
// stream 4: every u64 codec forced in turn

fn rawcodec_case(_case: u64, rng: &mut Rng, rep: &mut Report) {
    let m = match rng.below(5) {
        0 => *rng.pick(&[1usize, 2, 3, 511, 512, 513, 1023, 1024, 1025, 1536]),
        1 => rng.urange(1, 300),
        2 => rng.urange(300, 5000),
        3 => 512 * rng.urange(1, 6) + *rng.pick(&[0usize, 1, 511]),
        _ => rng.urange(5000, 70_000),
    };
    let (vals, prof) = gen_u64_seq(rng, m);
    for codec in [CodecType::Bitpacked, CodecType::Linear, CodecType::BlockwiseLinear] {
        let cname = format!("{codec:?}");
        let mut buf = Vec::new();
        if let Err(e) = serialize_u64_based_column_values::<u64>(&&vals[..], &[codec], &mut buf) {
            rep.observe("forced codec not applicable", format!("{cname}: {e}"));
            continue;
        }
        rep.eval();
        let col = match load_u64_based_column_values::<u64>(OwnedBytes::new(buf)) {
            Ok(c) => c,
            Err(e) => {
                rep.violation(format!("rawcodec:api-error:load:{cname}"), json!({"error": e.to_string(), "profile": prof, "len": m}));
                continue;
            }
        };
        let witness = |what: &str, extra: J| json!({"codec": cname, "what": what, "profile": prof, "len": m, "mismatch": extra});
        if col.num_vals() as usize != m {
            rep.violation(format!("rawcodec:num_vals:{cname}"), witness("num_vals", json!(col.num_vals())));
            continue;
        }
        let mut bad = false;
        for (i, v) in vals.iter().enumerate() {
            let g = col.get_val(i as u32);
            if g != *v {
                rep.violation(format!("rawcodec:get_val:{cname}"), witness("get_val", json!({"idx": i, "got": g, "expected": v, "block": i / 512, "in_last_block": i / 512 == (m - 1) / 512})));
                bad = true;
                break;
            }
        }
        if bad {
            continue;
        }
        let (mn, mx) = (col.min_value(), col.max_value());
        if vals.iter().any(|v| *v < mn || *v > mx) {
            rep.violation(format!("rawcodec:min_max_bound:{cname}"), witness("min_max", json!({"min": mn, "max": mx})));
            continue;
        }
        // get_range over a block boundary and value-range lookup
        let len = rng.urange(1, m.min(1100));
        let s = rng.usize_below(m - len + 1);
        let mut out = vec![0u64; len];
        col.get_range(s as u64, &mut out);
        if out != vals[s..s + len] {
            rep.violation(format!("rawcodec:get_range:{cname}"), witness("get_range", json!({"start": s, "len": len})));
            continue;
        }
        let a = *rng.pick(&vals);
        let b = *rng.pick(&vals);
        let (lo, hi) = (a.min(b), a.max(b));
        let r0 = rng.usize_below(m + 1) as u32;
        let r1 = rng.range(r0 as u64, m as u64) as u32;
        let mut hits = vec![];
        col.get_row_ids_for_value_range(lo..=hi, r0..r1, &mut hits);
        let e: Vec<u32> = (r0..r1).filter(|i| (lo..=hi).contains(&vals[*i as usize])).collect();
        if hits != e {
            rep.violation(format!("rawcodec:value_range:{cname}"), witness("get_row_ids_for_value_range", json!({"lo": lo, "hi": hi, "rows": [r0, r1], "got_len": hits.len(), "expected_len": e.len()})));
            continue;
        }
        rep.observe("forced codec", cname.clone());
        if vals.iter().any(|v| *v != vals[0]) {
            rep.nontrivial(format!("rawcodec|{cname}|{prof}|v{}|{}", size_class(m), m % 512 == 0));
        }
    }
}


// ---------------------------------------------------------------------------------------------
// stream 2: merge_columnar (Stack / Shuffled with alive bitsets)

struct InputTable {
    n: usize,
    cols: Vec<MCol>,
    /// per column: as stored in this input (numerics coerced to the input's column type)
    stored: Vec<ColData>,
    stored_num_type: Vec<Option<NumericalType>>,
}

fn make_bitset(alive: &[bool]) -> ReadOnlyBitSet {
    let mut bs = BitSet::with_max_value(alive.len() as u32);
    for (i, a) in alive.iter().enumerate() {
        if *a {
            bs.insert(i as u32);
        }
    }
    let mut buf = Vec::new();
    bs.serialize(&mut buf).expect("write to vec");
    ReadOnlyBitSet::open(OwnedBytes::new(buf))
}

fn num_min_max(rows: &[Vec<Num>]) -> Option<(Num, Num)> {
    fn lt(a: Num, b: Num) -> bool {
        match (a, b) {
            (Num::I(x), Num::I(y)) => x < y,
            (Num::U(x), Num::U(y)) => x < y,
            (Num::F(x), Num::F(y)) => x < y,
            _ => false,
        }
    }
    let mut it = rows.iter().flatten().copied();
    let first = it.next()?;
    let (mut mn, mut mx) = (first, first);
    for v in it {
        if lt(v, mn) {
            mn = v;
        }
        if lt(mx, v) {
            mx = v;
        }
    }
    Some((mn, mx))
}

/// documented: "the first type compatible out of i64, u64, f64 in that order" over the input
/// columns (judged by their min / max), unless all inputs already agree or a type is required
fn merged_num_type(considered: &[(NumericalType, &Vec<Vec<Num>>)], required: Option<NumericalType>) -> Option<(NumericalType, Quirk)> {
    if let Some(t) = required {
        return Some((t, Quirk::None));
    }
    let first = considered.first()?;
    if considered.iter().all(|c| c.0 == first.0) {
        return Some((first.0, Quirk::None));
    }
    let mut ext = vec![];
    for (_, rows) in considered {
        if let Some((mn, mx)) = num_min_max(rows) {
            ext.push(mn);
            ext.push(mx);
        }
    }
    Some(writer_num_type(ext.into_iter()))
}

fn small_table_rows(rng: &mut Rng) -> usize {
    match rng.below(4) {
        0 => *rng.pick(&[0usize, 1, 2, 3, 5, 63, 64, 65, 127, 128, 129]),
        1 => *rng.pick(&[255usize, 256, 257, 511, 512, 513, 1023, 1024, 1025]),
        2 => rng.urange(1, 200),
        _ => rng.urange(200, 2500),
    }
}

fn merge_case(case: u64, rng: &mut Rng, rep: &mut Report) {
    // one case in ~10 merges two (sometimes three) wide tables of 21-100 columns
    let many = case % 12 == 7 || rng.chance(1, 20);
    let k = if many { rng.urange(2, 3) } else { 1 + rng.weighted(&[10, 30, 25, 20, 15]) };
    let big = !many && rng.chance(if thorough() { 5 } else { 7 }, 100);
    let mut pool: Vec<(String, Cat)> = vec![];
    if many {
        pool = many_column_specs(rng);
        rep.observe("wide tables (columns per columnar)", format!("merge:{}", wide_class(pool.len())));
    } else {
        let npool = rng.urange(1, 4);
        for i in 0..npool {
            let cat = pick_cat(rng);
            let name = if rng.chance(1, 5) { "shared".to_string() } else { format!("m{i}") };
            if !pool.contains(&(name.clone(), cat)) {
                pool.push((name, cat));
            }
        }
    }
    // inputs
    let mut inputs: Vec<InputTable> = vec![];
    for i in 0..k {
        let n = if big && i == rng.usize_below(k).min(1) {
            *rng.pick(&[65_000usize, 65_535, 65_536, 66_000, 70_000, 131_072])
        } else if big {
            *rng.pick(&[1usize, 535, 536, 537, 5000])
        } else if many {
            *rng.pick(&[1usize, 3, 64, 65, 200])
        } else {
            small_table_rows(rng)
        };
        let mut cols = vec![];
        for (name, cat) in &pool {
            if rng.chance(if many { 9 } else { 3 }, if many { 10 } else { 4 }) {
                let max_total = if n > 60_000 { 150_000 } else if many { 800 } else { 20_000 };
                cols.push(gen_model_col(rng, name.clone(), *cat, n, max_total, true));
            }
        }
        inputs.push(InputTable { n, cols, stored: vec![], stored_num_type: vec![] });
    }
    let total_in: usize = inputs.iter().map(|t| t.n).sum();
    // write + open inputs
    let mut readers: Vec<ColumnarReader> = vec![];
    for t in inputs.iter_mut() {
        let ctx_in = json!({"stream": "merge", "case": case, "input_rows": t.n,
            "columns": t.cols.iter().map(|c| json!({"name": c.name, "cat": c.data.cat().name(), "values": c.val_profile, "index": c.idx_profile})).collect::<Vec<_>>()});
        let Some(bytes) = write_table_guarded(&t.cols, t.n, rng.bool(), None, "merge-input", &ctx_in, rep) else {
            return;
        };
        let reader = match ColumnarReader::open(bytes) {
            Ok(r) => r,
            Err(e) => {
                rep.violation("api-error:merge:open_input", json!({"error": e.to_string(), "case": case}));
                return;
            }
        };
        for c in &t.cols {
            let mut nt = None;
            if c.data.cat() == Cat::Num {
                let (want, ambiguous) = model_num_type(c);
                nt = Some(want);
                if ambiguous != Quirk::None {
                    // accept what the writer picked for the documented-ambiguous i64::MAX case
                    if let Ok(hs) = reader.read_columns(&c.name) {
                        if let Some(h) = hs.iter().find(|h| cat_of(h.column_type()) == Cat::Num) {
                            nt = numerical_type_of(h.column_type());
                        }
                    }
                }
            }
            t.stored_num_type.push(nt);
            t.stored.push(expected_read(c, nt));
        }
        readers.push(reader);
    }
    // row order
    let shuffled = rng.chance(3, 5);
    let mut alive: Vec<Vec<bool>> = inputs.iter().map(|t| vec![true; t.n]).collect();
    let mut bitset_given: Vec<bool> = vec![false; k];
    let mut order_kind = "stack";
    let mut addrs: Vec<(usize, usize)> = vec![];
    let mut del_profiles: Vec<&'static str> = vec![];
    if shuffled {
        for (i, t) in inputs.iter().enumerate() {
            let prof = *rng.pick(&["no_bitset", "bitset_all_alive", "few_deleted", "half_deleted", "all_deleted", "all_but_one", "runs_deleted"]);
            del_profiles.push(prof);
            bitset_given[i] = prof != "no_bitset";
            let n = t.n;
            if n == 0 {
                continue;
            }
            match prof {
                "few_deleted" => {
                    for _ in 0..rng.urange(1, 3) {
                        let r = rng.usize_below(n);
                        let p = *rng.pick(&[0usize, n - 1, r, 63.min(n - 1), 64.min(n - 1), 512.min(n - 1)]);
                        alive[i][p] = false;
                    }
                }
                "half_deleted" => alive[i].iter_mut().for_each(|a| *a = rng.bool()),
                "all_deleted" => alive[i].iter_mut().for_each(|a| *a = false),
                "all_but_one" => {
                    alive[i].iter_mut().for_each(|a| *a = false);
                    alive[i][rng.usize_below(n)] = true;
                }
                "runs_deleted" => {
                    let l = *rng.pick(&[1usize, 7, 64, 100, 512]);
                    for (r, a) in alive[i].iter_mut().enumerate() {
                        *a = (r / l) % 2 == 0;
                    }
                }
                _ => {}
            }
        }
        let per_input: Vec<Vec<(usize, usize)>> =
            (0..k).map(|i| (0..inputs[i].n).filter(|r| alive[i][*r]).map(|r| (i, r)).collect()).collect();
        order_kind = *rng.pick(&["shuffle_stacked", "shuffle_interleaved", "shuffle_random", "shuffle_reversed"]);
        match order_kind {
            "shuffle_stacked" => addrs = per_input.concat(),
            "shuffle_reversed" => {
                addrs = per_input.concat();
                addrs.reverse();
            }
            "shuffle_random" => {
                addrs = per_input.concat();
                rng.shuffle(&mut addrs);
            }
            _ => {
                // k-way interleave keeping each input's own order (what a sorted-index merge does)
                let mut pos = vec![0usize; k];
                let total: usize = per_input.iter().map(|p| p.len()).sum();
                while addrs.len() < total {
                    let i = rng.usize_below(k);
                    if pos[i] < per_input[i].len() {
                        let run = rng.urange(1, 40).min(per_input[i].len() - pos[i]);
                        addrs.extend_from_slice(&per_input[i][pos[i]..pos[i] + run]);
                        pos[i] += run;
                    }
                }
            }
        }
    } else {
        for (i, t) in inputs.iter().enumerate() {
            addrs.extend((0..t.n).map(|r| (i, r)));
        }
    }
    // required columns
    let mut required: Vec<(String, ColumnType)> = vec![];
    let mut required_num: BTreeMap<String, NumericalType> = BTreeMap::new();
    if rng.chance(1, 3) {
        // a column nobody has
        let cat = pick_cat(rng);
        let nt = *rng.pick(&[NumericalType::I64, NumericalType::U64, NumericalType::F64]);
        required.push(("absent_required".to_string(), column_type_of(cat, Some(nt))));
        if cat == Cat::Num {
            required_num.insert("absent_required".to_string(), nt);
        }
        pool.push(("absent_required".to_string(), cat));
    }
    for (name, cat) in pool.clone() {
        if name == "absent_required" || !rng.chance(1, 4) {
            continue;
        }
        if cat == Cat::Num {
            // f64 is compatible with every numeric input
            required.push((name.clone(), ColumnType::F64));
            required_num.insert(name.clone(), NumericalType::F64);
        } else {
            required.push((name.clone(), column_type_of(cat, None)));
        }
    }
    let info = json!({"stream": "merge", "case": case, "inputs": inputs.iter().map(|t| json!({"rows": t.n, "columns": t.cols.iter().map(|c| json!({"name": c.name, "cat": c.data.cat().name(), "values": c.val_profile, "index": c.idx_profile, "forced": c.forced.map(num_type_name), "num_values": c.data.total()})).collect::<Vec<_>>()})).collect::<Vec<_>>(),
        "order": order_kind, "delete_profiles": del_profiles, "rows_after_merge": addrs.len(),
        "required": required.iter().map(|(n, t)| format!("{n}:{t}")).collect::<Vec<_>>()});
    if case < 2 {
        rep.sample(info.clone());
    }
    let reader_refs: Vec<&ColumnarReader> = readers.iter().collect();
    let order: MergeRowOrder = if shuffled {
        ShuffleMergeOrder {
            new_row_id_to_old_row_id: addrs.iter().map(|(i, r)| RowAddr { segment_ord: *i as u32, row_id: *r as u32 }).collect(),
            alive_bitsets: (0..k).map(|i| if bitset_given[i] { Some(make_bitset(&alive[i])) } else { None }).collect(),
        }
        .into()
    } else {
        StackMergeOrder::stack(&reader_refs).into()
    };
    let mut out = Vec::new();
    if let Err(e) = merge_columnar(&reader_refs, &required, order, &mut out) {
        rep.violation("api-error:merge:merge_columnar", json!({"error": e.to_string(), "context": info}));
        return;
    }
    rep.count("merged_bytes_written", out.len() as u64);
    rep.observe("merge order", order_kind);
    rep.observe("merge inputs", format!("{k}"));
    let merged = match ColumnarReader::open(out) {
        Ok(r) => r,
        Err(e) => {
            rep.violation("api-error:merge:open_merged", json!({"error": e.to_string(), "context": info}));
            return;
        }
    };
    if merged.num_docs() as usize != addrs.len() {
        rep.violation("merge:reader_num_docs", json!({"got": merged.num_docs(), "expected": addrs.len(), "rows_in": total_in, "context": info}));
        return;
    }
    let listed: Vec<(String, ColumnType)> = match merged.list_columns() {
        Ok(l) => l.into_iter().map(|(n, h)| (n, h.column_type())).collect(),
        Err(e) => {
            rep.violation("api-error:merge:list_columns", json!({"error": e.to_string(), "context": info}));
            return;
        }
    };
    let mut seen: BTreeSet<(String, Cat)> = BTreeSet::new();
    for (name, cat) in &pool {
        rep.eval();
        let ck = Ck { pipe: "merge", col: name, info: &info, sub: "" };
        // sources
        let srcs: Vec<Option<&ColData>> = inputs
            .iter()
            .map(|t| t.cols.iter().position(|c| &c.name == name && c.data.cat() == *cat).map(|p| &t.stored[p]))
            .collect();
        let src_types: Vec<Option<NumericalType>> = inputs
            .iter()
            .map(|t| t.cols.iter().position(|c| &c.name == name && c.data.cat() == *cat).and_then(|p| t.stored_num_type[p]))
            .collect();
        // an input counts when it still has a value after the merge
        let considered: Vec<usize> = (0..k)
            .filter(|i| match srcs[*i] {
                Some(d) => (0..inputs[*i].n).any(|r| alive[*i][r] && d.row_len(r) > 0),
                None => false,
            })
            .collect();
        let is_required = required.iter().any(|(n, t)| n == name && cat_of(*t) == *cat);
        let mut exp = ColData::gather(*cat, &srcs, &addrs);
        let handle = listed
            .iter()
            .position(|(n, t)| n == name && cat_of(*t) == *cat)
            .and_then(|_| merged.read_columns(name).ok())
            .and_then(|hs| hs.into_iter().find(|h| cat_of(h.column_type()) == *cat));
        if considered.is_empty() && !is_required {
            // may be absent; if present it must be empty
            rep.observe("merged column without surviving values", if handle.is_some() { "present(empty)" } else { "absent" });
            if handle.is_none() {
                continue;
            }
        }
        let Some(handle) = handle else {
            ck.viol(rep, "column_missing", cat.name(), json!({"listed": listed.iter().map(|(n, t)| format!("{n}:{t}")).collect::<Vec<_>>()}));
            continue;
        };
        seen.insert((name.clone(), *cat));
        if *cat == Cat::Num {
            let cons: Vec<(NumericalType, &Vec<Vec<Num>>)> = considered
                .iter()
                .filter_map(|i| match (src_types[*i], srcs[*i]) {
                    (Some(t), Some(ColData::Num(r))) => Some((t, r)),
                    _ => None,
                })
                .collect();
            let got = numerical_type_of(handle.column_type()).unwrap();
            match merged_num_type(&cons, required_num.get(name).copied()) {
                Some((want, ambiguous)) => {
                    let in_types: BTreeSet<&str> = cons.iter().map(|c| num_type_name(c.0)).collect();
                    rep.observe("numeric coercion at merge (input types -> merged)", format!("{:?}->{}", in_types, num_type_name(got)));
                    if !type_pick_ok(&ck, rep, got, want, ambiguous) {
                        continue;
                    }
                }
                None => {}
            }
            if let ColData::Num(r) = &exp {
                // representability: an integer target must hold every surviving value
                let bad = r.iter().flatten().any(|v| match (got, *v) {
                    (NumericalType::I64, Num::U(x)) => x > i64::MAX as u64,
                    (NumericalType::U64, Num::I(x)) => x < 0,
                    (NumericalType::I64, Num::F(_)) | (NumericalType::U64, Num::F(_)) => true,
                    _ => false,
                });
                if bad {
                    ck.viol(rep, "numeric_type_cannot_hold_values", num_type_name(got), json!({"picked": num_type_name(got)}));
                    continue;
                }
                exp = ColData::Num(coerce_rows(r, got));
            }
        }
        let dc = match handle.open() {
            Ok(d) => d,
            Err(e) => {
                ck.viol(rep, "api-error:open", cat.name(), json!(e.to_string()));
                continue;
            }
        };
        // terms that may legitimately be in the merged dictionary
        let mut allowed: BTreeSet<Vec<u8>> = BTreeSet::new();
        for s in srcs.iter().flatten() {
            match s {
                ColData::Str(r) => allowed.extend(r.iter().flatten().map(|x| x.as_bytes().to_vec())),
                ColData::Bytes(r) => allowed.extend(r.iter().flatten().cloned()),
                _ => {}
            }
        }
        let ty = dyn_type_name(&dc);
        let shape = observe_column(rep, "merge", &handle, &exp, &ty, &format!("{order_kind}|k{k}|srcs{}", considered.len()));
        if !check_dynamic(&ck, &dc, &exp, DictMode::Within(&allowed), rng, rep) {
            continue;
        }
        if k >= 2 || addrs.len() != total_in {
            if exp.non_constant() || dc.get_cardinality() != tantivy_columnar::Cardinality::Full {
                rep.nontrivial(shape);
            }
        }
    }
    // nothing else may appear
    for (n, t) in &listed {
        if !seen.contains(&(n.clone(), cat_of(*t))) {
            rep.violation("merge:unexpected_column", json!({"column": n, "type": t.to_string(), "context": info}));
        }
    }
}


// ---------------------------------------------------------------------------------------------
// stream 3: through tantivy (schema FAST fields -> segment fast_fields(); IndexWriter::merge)

use tantivy::fastfield::FastFieldReaders;
use tantivy::indexer::NoMergePolicy;
use tantivy::schema::{
    BytesOptions, DateOptions, DateTimePrecision, Field, IpAddrOptions, JsonObjectOptions, NumericOptions, OwnedValue, Schema,
    TextOptions,
};
use tantivy::{Index, IndexWriter, ReloadPolicy, SegmentReader, TantivyDocument, Term};

#[derive(Clone, Copy, Debug, PartialEq)]
enum JLeaf {
    Num,
    Str,
    Bool,
    Date,
}

struct TCol {
    /// what is passed to the fast field accessors ("f3", "js.a.b", "js.p\.q")
    access: String,
    field: Field,
    /// json keys below the field (empty for plain fields)
    keys: Vec<String>,
    /// values as added, per global doc
    added: ColData,
    /// values as they are documented to be stored (dates truncated to the field precision)
    stored: ColData,
    forced: Option<NumericalType>,
    val_profile: String,
    idx_profile: &'static str,
    kind: String,
}

fn truncate_date(ns: i64, p: DateTimePrecision) -> i64 {
    match p {
        DateTimePrecision::Seconds => ns / 1_000_000_000 * 1_000_000_000,
        DateTimePrecision::Milliseconds => ns / 1_000_000 * 1_000_000,
        DateTimePrecision::Microseconds => ns / 1_000 * 1_000,
        DateTimePrecision::Nanoseconds => ns,
    }
}

fn owned_leaf(data: &ColData, doc: usize, i: usize) -> OwnedValue {
    match data {
        ColData::Num(r) => match r[doc][i] {
            Num::I(x) => OwnedValue::I64(x),
            Num::U(x) => OwnedValue::U64(x),
            Num::F(x) => OwnedValue::F64(x),
        },
        ColData::Bool(r) => OwnedValue::Bool(r[doc][i]),
        ColData::Date(r) => OwnedValue::Date(DateTime::from_timestamp_nanos(r[doc][i])),
        ColData::Str(r) => OwnedValue::Str(r[doc][i].clone()),
        ColData::Bytes(r) => OwnedValue::Bytes(r[doc][i].clone()),
        ColData::Ip(r) => OwnedValue::IpAddr(Ipv6Addr::from(r[doc][i])),
    }
}

fn insert_json(obj: &mut Vec<(String, OwnedValue)>, keys: &[String], v: OwnedValue) {
    if keys.len() == 1 {
        obj.push((keys[0].clone(), v));
        return;
    }
    if let Some((_, OwnedValue::Object(inner))) = obj.iter_mut().find(|(k, val)| k == &keys[0] && matches!(val, OwnedValue::Object(_))) {
        insert_json(inner, &keys[1..], v);
        return;
    }
    let mut inner = vec![];
    insert_json(&mut inner, &keys[1..], v);
    obj.push((keys[0].clone(), OwnedValue::Object(inner)));
}

fn typed_open(ff: &FastFieldReaders, access: &str, ct: ColumnType) -> Result<Option<DynamicColumn>, String> {
    let e = |e: tantivy::TantivyError| e.to_string();
    Ok(match ct {
        ColumnType::U64 => Some(ff.u64(access).map_err(e)?.into()),
        ColumnType::I64 => Some(ff.i64(access).map_err(e)?.into()),
        ColumnType::F64 => Some(ff.f64(access).map_err(e)?.into()),
        ColumnType::Bool => Some(ff.bool(access).map_err(e)?.into()),
        ColumnType::DateTime => Some(ff.date(access).map_err(e)?.into()),
        ColumnType::IpAddr => Some(ff.ip_addr(access).map_err(e)?.into()),
        ColumnType::Str => ff.str(access).map_err(e)?.map(|c| c.into()),
        ColumnType::Bytes => ff.bytes(access).map_err(e)?.map(|c| c.into()),
    })
}

/// `column_opt::<T>` answers Some exactly for the column's own type
fn column_opt_probe(ff: &FastFieldReaders, access: &str, ct: ColumnType) -> Result<(), String> {
    let e = |e: tantivy::TantivyError| e.to_string();
    let u = ff.column_opt::<u64>(access).map_err(e)?.is_some();
    let i = ff.column_opt::<i64>(access).map_err(e)?.is_some();
    let f = ff.column_opt::<f64>(access).map_err(e)?.is_some();
    let b = ff.column_opt::<bool>(access).map_err(e)?.is_some();
    let d = ff.column_opt::<DateTime>(access).map_err(e)?.is_some();
    let p = ff.column_opt::<Ipv6Addr>(access).map_err(e)?.is_some();
    let want = |t: ColumnType| ct == t;
    // other categories may coexist under the same json path, so only the numeric trio is exclusive
    if ct.numerical_type().is_some() && (u != want(ColumnType::U64) || i != want(ColumnType::I64) || f != want(ColumnType::F64)) {
        return Err(format!("column_opt numeric answers u64={u} i64={i} f64={f} for a {ct} column"));
    }
    let own = match ct {
        ColumnType::U64 => u,
        ColumnType::I64 => i,
        ColumnType::F64 => f,
        ColumnType::Bool => b,
        ColumnType::DateTime => d,
        ColumnType::IpAddr => p,
        _ => true,
    };
    if !own {
        return Err(format!("column_opt::<own type> is None for a {ct} column"));
    }
    Ok(())
}

struct SegSrc {
    /// global doc index of every doc of the segment (deleted ones included)
    rows: Vec<usize>,
}

/// compares every model column of one segment; `sources` = the segments this one was merged from
fn check_segment(
    pipe: &'static str,
    sr: &SegmentReader,
    cols: &[TCol],
    n_docs: usize,
    alive: &[bool],
    sources: Option<&[SegSrc]>,
    info: &J,
    rng: &mut Rng,
    rep: &mut Report,
) -> Option<SegSrc> {
    let ff = sr.fast_fields();
    let max_doc = sr.max_doc() as usize;
    let idcol = match ff.u64("id") {
        Ok(c) => c,
        Err(e) => {
            rep.violation(format!("api-error:{pipe}:u64(id)"), json!({"error": e.to_string(), "context": info}));
            return None;
        }
    };
    let mut rows = Vec::with_capacity(max_doc);
    for d in 0..max_doc {
        match idcol.first(d as u32) {
            Some(g) if (g as usize) < n_docs => rows.push(g as usize),
            other => {
                rep.violation(format!("{pipe}:id_column"), json!({"doc": d, "got": other, "context": info}));
                return None;
            }
        }
    }
    let addrs: Vec<(usize, usize)> = rows.iter().map(|g| (0usize, *g)).collect();
    for c in cols {
        rep.eval();
        let cat = c.stored.cat();
        let ck = Ck { pipe, col: &c.access, info, sub: "" };
        let mut exp = ColData::gather(cat, &[Some(&c.stored)], &addrs);
        let handles = match ff.dynamic_column_handles(&c.access) {
            Ok(h) => h,
            Err(e) => {
                ck.viol(rep, "api-error:dynamic_column_handles", cat.name(), json!(e.to_string()));
                continue;
            }
        };
        let same_cat: Vec<&DynamicColumnHandle> = handles.iter().filter(|h| cat_of(h.column_type()) == cat).collect();
        if same_cat.len() > 1 {
            ck.viol(rep, "more_than_one_column_per_category", cat.name(), json!(same_cat.iter().map(|h| h.column_type().to_string()).collect::<Vec<_>>()));
            continue;
        }
        let Some(handle) = same_cat.first().copied() else {
            if exp.total() == 0 && !c.keys.is_empty() {
                rep.observe("json path without values in a segment", "column absent");
                continue;
            }
            ck.viol(rep, "column_missing", cat.name(), json!({"handles": handles.iter().map(|h| h.column_type().to_string()).collect::<Vec<_>>()}));
            continue;
        };
        let ct = handle.column_type();
        if cat == Cat::Num {
            let got = numerical_type_of(ct).unwrap();
            let want: Option<(NumericalType, Quirk)> = if let Some(t) = c.forced {
                Some((t, Quirk::None))
            } else if let (Some(srcs), ColData::Num(all)) = (sources, &c.stored) {
                // merged dynamic column: judged from the source segments that still contribute
                let per_src: Vec<(NumericalType, Vec<Vec<Num>>, bool)> = srcs
                    .iter()
                    .map(|s| {
                        let r: Vec<Vec<Num>> = s.rows.iter().map(|g| all[*g].clone()).collect();
                        let (t, amb) = writer_num_type(r.iter().flatten().copied());
                        // a source that itself hit the i64::MAX quirk stored u64 / f64
                        let t = match amb {
                            Quirk::AtI64MaxWithNeg => NumericalType::F64,
                            Quirk::AtI64MaxNoNeg => NumericalType::U64,
                            Quirk::None => t,
                        };
                        let contributes = s.rows.iter().any(|g| alive[*g] && !all[*g].is_empty());
                        (t, coerce_rows(&r, t), contributes)
                    })
                    .collect();
                let cons: Vec<(NumericalType, &Vec<Vec<Num>>)> = per_src.iter().filter(|p| p.2).map(|p| (p.0, &p.1)).collect();
                merged_num_type(&cons, None)
            } else if let ColData::Num(r) = &exp {
                Some(writer_num_type(r.iter().flatten().copied()))
            } else {
                None
            };
            rep.observe("numeric type of a json path", format!("{pipe}:{}", num_type_name(got)));
            if let Some((want, amb)) = want {
                if !type_pick_ok(&ck, rep, got, want, amb) {
                    continue;
                }
            }
            if let ColData::Num(r) = &exp {
                exp = ColData::Num(coerce_rows(r, got));
            }
        }
        let dc = match typed_open(ff, &c.access, ct) {
            Ok(Some(d)) => d,
            Ok(None) => {
                ck.viol(rep, "typed_accessor_none", cat.name(), json!({"column_type": ct.to_string()}));
                continue;
            }
            Err(e) => {
                ck.viol(rep, "api-error:typed_accessor", cat.name(), json!({"column_type": ct.to_string(), "error": e}));
                continue;
            }
        };
        if let Err(e) = column_opt_probe(ff, &c.access, ct) {
            ck.viol(rep, "column_opt", cat.name(), json!(e));
            continue;
        }
        let mut allowed: BTreeSet<Vec<u8>> = BTreeSet::new();
        let dict_mode = if sources.is_some() {
            match &c.stored {
                ColData::Str(r) => allowed.extend(r.iter().flatten().map(|x| x.as_bytes().to_vec())),
                ColData::Bytes(r) => allowed.extend(r.iter().flatten().cloned()),
                _ => {}
            }
            DictMode::Within(&allowed)
        } else {
            DictMode::Exact
        };
        let ty = dyn_type_name(&dc);
        let shape = observe_column(rep, pipe, handle, &exp, &ty, &format!("{}|{}|{}", c.kind, c.val_profile, c.idx_profile));
        if !check_dynamic(&ck, &dc, &exp, dict_mode, rng, rep) {
            continue;
        }
        if exp.non_constant() || dc.get_cardinality() != tantivy_columnar::Cardinality::Full {
            rep.nontrivial(shape);
        }
    }
    Some(SegSrc { rows })
}

/// adds a json FAST field and its model columns. `many`: 21-60 (path, value family) pairs whose
/// paths interleave in sort order and mostly hold values of 2-3 families (numbers in some
/// documents, strings / bools / dates in others)
fn add_json_field(sb: &mut tantivy::schema::SchemaBuilder, cols: &mut Vec<TCol>, rng: &mut Rng, name: &str, n: usize, max_total: usize, many: bool) {
    let expand = rng.bool();
    let mut opts = JsonObjectOptions::default().set_fast(if rng.bool() { Some("raw") } else { None });
    if expand {
        opts = opts.set_expand_dots_enabled();
    }
    let f = sb.add_json_field(name, opts);
    // sub-paths: (keys, access suffix, leaf kinds)
    let mut specs: Vec<(Vec<String>, String, Vec<JLeaf>)> = vec![];
    if many {
        let target = *rng.pick(&[21usize, 24, 30, 45, 60]);
        let stems: [&[&str]; 10] = [&["a"], &["a", "b"], &["a", "b", "c"], &["ab"], &["a0"], &["b"], &["j", "k"], &["j", "kk"], &["j"], &["z", "y"]];
        let mut total = 0;
        let mut guard = 0;
        while total < target && guard < 1000 {
            guard += 1;
            let stem = *rng.pick(&stems);
            let mut keys: Vec<String> = stem.iter().map(|s| s.to_string()).collect();
            if !rng.chance(1, 3) {
                let l = keys.len() - 1;
                keys[l] = format!("{}{}", keys[l], rng.below(6));
            }
            let suffix = keys.join(".");
            if specs.iter().any(|s| s.1 == suffix) {
                continue;
            }
            let mut kinds = vec![JLeaf::Num, JLeaf::Str, JLeaf::Bool, JLeaf::Date];
            rng.shuffle(&mut kinds);
            kinds.truncate(1 + rng.weighted(&[30, 45, 25]));
            total += kinds.len();
            specs.push((keys, suffix, kinds));
        }
    } else {
        let mut paths: Vec<(Vec<String>, String)> = vec![
            (vec!["a".into()], "a".into()),
            (vec!["b".into(), "c".into()], "b.c".into()),
            (vec!["b".into(), "d".into()], "b.d".into()),
            (vec!["deep".into(), "x".into(), "y".into()], "deep.x.y".into()),
        ];
        if expand {
            paths.push((vec!["p.q".into()], "p.q".into()));
        } else {
            paths.push((vec!["p.q".into()], "p\\.q".into()));
        }
        rng.shuffle(&mut paths);
        paths.truncate(rng.urange(1, 4));
        for (keys, suffix) in paths {
            let leaf = *rng.pick(&[JLeaf::Num, JLeaf::Num, JLeaf::Num, JLeaf::Str, JLeaf::Bool, JLeaf::Date]);
            specs.push((keys, suffix, vec![leaf]));
        }
    }
    for (keys, suffix, kinds) in specs {
        for leaf in kinds {
            let idxp = pick_idx_profile(rng);
            let cnts = gen_counts(rng, n, idxp, if many { 600 } else { max_total.min(20_000) });
            let (cat, flavor) = match leaf {
                JLeaf::Num => (Cat::Num, *rng.pick(&NUM_FLAVORS)),
                JLeaf::Str => (Cat::Str, NumFlavor::U64),
                JLeaf::Bool => (Cat::Bool, NumFlavor::U64),
                JLeaf::Date => (Cat::Date, NumFlavor::U64),
            };
            let (added, val_profile) = gen_coldata(rng, cat, flavor, &cnts);
            cols.push(TCol {
                access: format!("{name}.{suffix}"),
                field: f,
                keys: keys.clone(),
                stored: added.clone(),
                added,
                forced: None,
                val_profile,
                idx_profile: idxp,
                kind: format!("json:{leaf:?}:expand{}{}", expand as u8, if many { ":wide" } else { "" }),
            });
        }
    }
}

fn tantivy_case(case: u64, rng: &mut Rng, rep: &mut Report) {
    // segments
    let many = case % 10 == 4 || rng.chance(1, 14);
    let big = !many && rng.chance(if thorough() { 4 } else { 6 }, 100);
    let nseg = if many { rng.urange(1, 2) } else { rng.urange(1, 4) };
    let chunk_sizes: Vec<usize> = (0..nseg)
        .map(|i| {
            if many {
                *rng.pick(&[1usize, 5, 64, 65, 150, 400])
            } else if big && i == 0 {
                *rng.pick(&[65_536usize, 65_537, 66_000, 70_000])
            } else if big {
                *rng.pick(&[1usize, 500, 3000])
            } else {
                small_table_rows(rng).max(1)
            }
        })
        .collect();
    let n: usize = chunk_sizes.iter().sum();
    let max_total = if big { 110_000 } else { 12_000 };
    // schema
    let mut sb = Schema::builder();
    let id_f = sb.add_u64_field("id", NumericOptions::default().set_fast().set_indexed());
    let grp_f = sb.add_u64_field("grp", NumericOptions::default().set_indexed());
    let mut cols: Vec<TCol> = vec![];
    let kinds = ["u64", "i64", "f64", "bool", "date", "ip", "bytes", "str", "json"];
    let nfields = if big { rng.urange(2, 4) } else if many { rng.urange(1, 4) } else { rng.urange(3, 9) };
    let mut json_done = many;
    for fi in 0..nfields {
        let kind = *rng.pick(&kinds);
        let name = format!("f{fi}_{kind}");
        let idx_profile = pick_idx_profile(rng);
        let counts = gen_counts(rng, n, idx_profile, max_total);
        let mut push = |field: Field, cat: Cat, flavor: NumFlavor, forced: Option<NumericalType>, prec: Option<DateTimePrecision>, kind: String, rng: &mut Rng| {
            let (added, val_profile) = gen_coldata(rng, cat, flavor, &counts);
            let stored = match (&added, prec) {
                (ColData::Date(r), Some(p)) => ColData::Date(r.iter().map(|row| row.iter().map(|x| truncate_date(*x, p)).collect()).collect()),
                _ => added.clone(),
            };
            cols.push(TCol { access: name.clone(), field, keys: vec![], added, stored, forced, val_profile, idx_profile, kind });
        };
        match kind {
            "u64" => {
                let f = sb.add_u64_field(&name, NumericOptions::default().set_fast());
                push(f, Cat::Num, NumFlavor::U64, Some(NumericalType::U64), None, kind.into(), rng);
            }
            "i64" => {
                let f = sb.add_i64_field(&name, NumericOptions::default().set_fast());
                push(f, Cat::Num, NumFlavor::I64, Some(NumericalType::I64), None, kind.into(), rng);
            }
            "f64" => {
                let f = sb.add_f64_field(&name, NumericOptions::default().set_fast());
                push(f, Cat::Num, NumFlavor::F64, Some(NumericalType::F64), None, kind.into(), rng);
            }
            "bool" => {
                let f = sb.add_bool_field(&name, NumericOptions::default().set_fast());
                push(f, Cat::Bool, NumFlavor::U64, None, None, kind.into(), rng);
            }
            "date" => {
                let p = *rng.pick(&[DateTimePrecision::Seconds, DateTimePrecision::Milliseconds, DateTimePrecision::Microseconds, DateTimePrecision::Nanoseconds]);
                let f = sb.add_date_field(&name, DateOptions::default().set_fast().set_precision(p));
                push(f, Cat::Date, NumFlavor::U64, None, Some(p), format!("date:{p:?}"), rng);
            }
            "ip" => {
                let f = sb.add_ip_addr_field(&name, IpAddrOptions::default().set_fast());
                push(f, Cat::Ip, NumFlavor::U64, None, None, kind.into(), rng);
            }
            "bytes" => {
                let f = sb.add_bytes_field(&name, BytesOptions::default().set_fast());
                push(f, Cat::Bytes, NumFlavor::U64, None, None, kind.into(), rng);
            }
            "str" => {
                let raw = rng.bool();
                let f = sb.add_text_field(&name, TextOptions::default().set_fast(if raw { Some("raw") } else { None }));
                push(f, Cat::Str, NumFlavor::U64, None, None, format!("str:{}", if raw { "raw" } else { "none" }), rng);
            }
            _ => {
                if json_done {
                    continue;
                }
                json_done = true;
                add_json_field(&mut sb, &mut cols, rng, &name, n, max_total, false);
            }
        }
    }
    if many {
        // a json fast field with 21-60 (path, value family) columns in every segment
        add_json_field(&mut sb, &mut cols, rng, "wide_json", n, max_total, true);
        rep.observe("wide tables (columns per columnar)", format!("tantivy:{}", wide_class(cols.len() + 1)));
    }
    let schema = sb.build();
    let info = json!({"stream": "tantivy", "case": case, "segments": chunk_sizes,
        "columns": cols.iter().map(|c| json!({"access": c.access, "kind": c.kind, "values": c.val_profile, "index": c.idx_profile, "num_values": c.added.total()})).collect::<Vec<_>>()});
    if case < 2 {
        rep.sample(info.clone());
    }
    let index = Index::create_in_ram(schema);
    let mut writer: IndexWriter = match index.writer_with_num_threads(1, 60_000_000) {
        Ok(w) => w,
        Err(e) => {
            rep.violation("api-error:tantivy:writer", json!({"error": e.to_string(), "context": info}));
            return;
        }
    };
    writer.set_merge_policy(Box::new(NoMergePolicy));
    let mut g = 0usize;
    for cs in &chunk_sizes {
        for _ in 0..*cs {
            let mut doc = TantivyDocument::default();
            doc.add_u64(id_f, g as u64);
            doc.add_u64(grp_f, (g % 7) as u64);
            let mut json_objs: Vec<(Field, Vec<(String, OwnedValue)>)> = vec![];
            for c in &cols {
                let k = c.added.row_len(g);
                if c.keys.is_empty() {
                    for i in 0..k {
                        match &c.added {
                            ColData::Num(r) => match r[g][i] {
                                Num::I(x) => doc.add_i64(c.field, x),
                                Num::U(x) => doc.add_u64(c.field, x),
                                Num::F(x) => doc.add_f64(c.field, x),
                            },
                            ColData::Bool(r) => doc.add_bool(c.field, r[g][i]),
                            ColData::Date(r) => doc.add_date(c.field, DateTime::from_timestamp_nanos(r[g][i])),
                            ColData::Ip(r) => doc.add_ip_addr(c.field, Ipv6Addr::from(r[g][i])),
                            ColData::Str(r) => doc.add_text(c.field, &r[g][i]),
                            ColData::Bytes(r) => doc.add_bytes(c.field, &r[g][i]),
                        }
                    }
                } else if k > 0 {
                    let v = if k == 1 && g % 2 == 0 {
                        owned_leaf(&c.added, g, 0)
                    } else {
                        OwnedValue::Array((0..k).map(|i| owned_leaf(&c.added, g, i)).collect())
                    };
                    let pos = match json_objs.iter().position(|(f, _)| *f == c.field) {
                        Some(p) => p,
                        None => {
                            json_objs.push((c.field, vec![]));
                            json_objs.len() - 1
                        }
                    };
                    insert_json(&mut json_objs[pos].1, &c.keys, v);
                }
            }
            for (f, obj) in json_objs {
                doc.add_field_value(f, &OwnedValue::Object(obj));
            }
            if let Err(e) = writer.add_document(doc) {
                rep.violation("api-error:tantivy:add_document", json!({"error": e.to_string(), "context": info}));
                return;
            }
            g += 1;
        }
        if let Err(e) = writer.commit() {
            rep.violation("api-error:tantivy:commit", json!({"error": e.to_string(), "context": info}));
            return;
        }
    }
    let reader = match index.reader_builder().reload_policy(ReloadPolicy::Manual).try_into() {
        Ok(r) => r,
        Err(e) => {
            rep.violation("api-error:tantivy:reader", json!({"error": e.to_string(), "context": info}));
            return;
        }
    };
    let all_alive = vec![true; n];
    let searcher = reader.searcher();
    let mut sources: Vec<SegSrc> = vec![];
    let mut seen = vec![false; n];
    for sr in searcher.segment_readers() {
        match check_segment("tantivy", sr, &cols, n, &all_alive, None, &info, rng, rep) {
            Some(src) => {
                for g in &src.rows {
                    if seen[*g] {
                        rep.violation("tantivy:id_column_duplicate", json!({"id": g, "context": info}));
                        return;
                    }
                    seen[*g] = true;
                }
                sources.push(src);
            }
            None => return,
        }
    }
    if seen.iter().any(|s| !*s) {
        rep.violation("tantivy:docs_missing_from_segments", json!({"context": info}));
        return;
    }
    rep.observe("segments before merge", format!("{}", sources.len()));
    // deletes + merge
    let mut alive = vec![true; n];
    let del = *rng.pick(&["none", "none", "few", "group", "two_groups", "first_segment", "all"]);
    match del {
        "few" => {
            for _ in 0..rng.urange(1, 5) {
                let r = rng.usize_below(n);
                let g = *rng.pick(&[0usize, n - 1, r]);
                alive[g] = false;
                writer.delete_term(Term::from_field_u64(id_f, g as u64));
            }
        }
        "group" | "two_groups" => {
            let k = if del == "group" { 1 } else { 2 };
            for j in 0..k {
                let grp = (rng.below(7) as usize + j * 3) % 7;
                (0..n).filter(|g| g % 7 == grp).for_each(|g| alive[g] = false);
                writer.delete_term(Term::from_field_u64(grp_f, grp as u64));
            }
        }
        "first_segment" => {
            let s = rng.usize_below(sources.len());
            if sources[s].rows.len() <= 3000 {
                for g in &sources[s].rows {
                    alive[*g] = false;
                    writer.delete_term(Term::from_field_u64(id_f, *g as u64));
                }
            }
        }
        "all" => {
            for grp in 0..7u64 {
                writer.delete_term(Term::from_field_u64(grp_f, grp));
            }
            alive.iter_mut().for_each(|a| *a = false);
        }
        _ => {}
    }
    let deleted = alive.iter().filter(|a| !**a).count();
    if deleted == 0 && sources.len() < 2 {
        return;
    }
    if let Err(e) = writer.commit() {
        rep.violation("api-error:tantivy:commit_deletes", json!({"error": e.to_string(), "context": info}));
        return;
    }
    let ids = match index.searchable_segment_ids() {
        Ok(i) => i,
        Err(e) => {
            rep.violation("api-error:tantivy:searchable_segment_ids", json!({"error": e.to_string(), "context": info}));
            return;
        }
    };
    if ids.is_empty() {
        return;
    }
    if let Err(e) = writer.merge(&ids).wait() {
        rep.violation("api-error:tantivy:merge", json!({"error": e.to_string(), "deletes": del, "context": info}));
        return;
    }
    if let Err(e) = reader.reload() {
        rep.violation("api-error:tantivy:reload", json!({"error": e.to_string(), "context": info}));
        return;
    }
    let searcher = reader.searcher();
    let info2 = json!({"after": "IndexWriter::merge", "deletes": del, "deleted_docs": deleted, "base": info});
    rep.observe("merge through tantivy", format!("{}:{}", if deleted == 0 { "stack" } else { "shuffled(alive bitsets)" }, del));
    let n_alive = n - deleted;
    if searcher.num_docs() as usize != n_alive {
        rep.violation("tantivy-merged:num_docs", json!({"got": searcher.num_docs(), "expected": n_alive, "context": info2}));
        return;
    }
    if n_alive == 0 {
        rep.observe("merge through tantivy", "all documents deleted -> no segment");
        return;
    }
    if searcher.segment_readers().len() != 1 {
        rep.violation("tantivy-merged:segment_count", json!({"got": searcher.segment_readers().len(), "context": info2}));
        return;
    }
    let sr = &searcher.segment_readers()[0];
    if let Some(m) = check_segment("tantivy-merged", sr, &cols, n, &alive, Some(&sources), &info2, rng, rep) {
        let mut got: Vec<usize> = m.rows.clone();
        got.sort_unstable();
        let exp: Vec<usize> = (0..n).filter(|g| alive[*g]).collect();
        if got != exp {
            rep.violation("tantivy-merged:surviving_docs", json!({"got_len": got.len(), "expected_len": exp.len(), "context": info2}));
        }
    }
}

fn main() {
    let ctx = Ctx::from_env("C08", "exploration");
    THOROUGH.store(!ctx.quick(), std::sync::atomic::Ordering::Relaxed);
    let mut rep = run_cases(&ctx, "columnar", ctx.scale(260, 3600) as u64, columnar_case);
    rep.merge(run_cases(&ctx, "merge", ctx.scale(200, 2600) as u64, merge_case));
    rep.merge(run_cases(&ctx, "tantivy", ctx.scale(60, 700) as u64, tantivy_case));
    rep.merge(run_cases(&ctx, "rawcodec", ctx.scale(60, 600) as u64, rawcodec_case));
    simple_finish(
        &ctx,
        rep,
        "evaluation = one column read back and compared with a Vec<Vec<value>> model: every document's values_for_doc/first/has_value, \
         num_docs/num_vals/cardinality consistency, min/max bounds, values iter/get_range/get_vals, first_vals, row_ids_for_docs, \
         ColumnBlockAccessor, get_docids_for_value_range (3-7 value x doc ranges), optional-index rank/select/contains, and for str/bytes the \
         sorted dictionary, ordinals, ord->term, term->ord. Streams: columnar = ColumnarWriter->serialize (optionally with a row permutation)->ColumnarReader; \
         merge = merge_columnar over 1-5 inputs with differing column sets / numeric types, Stack or Shuffled (alive bitsets; stacked, interleaved, random, reversed row orders), \
         optional required columns; tantivy = FAST fields u64/i64/f64/bool/date(4 precisions)/ip/bytes/str/json sub-paths over 1-4 segments via \
         fast_fields().{u64,i64,f64,bool,date,ip_addr,str,bytes,column_opt,dynamic_column_handles}, then deletes + IndexWriter::merge and the same comparison; \
         rawcodec = each u64 codec forced. Value profiles: const/linear/blockwise+noise/random bit widths/gcd/extremes/monotone/few distinct/outliers, \
         ipv4-mapped/ipv6 clusters, dictionaries up to 8000 terms; index profiles: full, optional at 0/1/sparse/5119/5120/5121 per 65536-row block/half/all-but-few/runs of 64, \
         multivalued light/heavy/one huge row/empty rows; 0..200k rows. Non-trivial = values not all equal or cardinality not full (merge: >=2 inputs or rows dropped); \
         distinct = (stream, type, cardinality, values codec, offsets codec, rows/values size class, value profile, index profile | merge order, #inputs).",
        ctx.scale(100, 5000),
        &[
            "min_value/max_value are documented as bounds only (ColumnValues docs); tightness is observed, not demanded",
            "reported cardinality must be consistent with the rows (Full => exactly one value per row, Optional => at most one); minimality is observed, not demanded",
            "numeric type pick: first of (i64,u64,f64) that can represent the values (columnar/README.md, merge_columnar doc); at merge judged from the input columns' min/max as documented; int->f64 coercion is `as f64`",
            "a u64 value equal to i64::MAX without negatives may select u64 instead of i64 (pinned by an in-repo unit test; values exact either way)",
            "f64 value ranges with a +-0.0 bound: both the IEEE comparison and the order-preserving total order (-0.0 < +0.0) are accepted",
            "date fast fields are truncated toward zero to the configured precision (DateOptions::set_precision); json dates are stored untruncated",
            "a merged dictionary may keep terms that no surviving row uses but never a term absent from the inputs",
            "sparse/dense optional-index block variants are inferred from the non-null count per 65536-row block (threshold 5120); the variant is not observable through the public API",
            "codecs and cardinality are read from the serialized column header (layout documented in columnar/README.md and column/serialize.rs)",
            "NaN is never generated; facet columns (values sorted within a row) are out of scope of the statement",
        ],
    );
}
