//! Forced schedules shared by several checks (C02, C04): a merge that ends AFTER the writer that
//! started it has been replaced and the successor has committed. Whatever the old generation
//! still does - the merge thread, or an `end_merge` task already accepted by the old segment
//! updater - must not change what is published: a fresh reader shows exactly the successor's
//! commit, also after one more commit.

use std::time::Duration;

use serde_json::{json, Value};

use crate::hist::*;
use crate::mondir::{MonCfg, MonDir, OpKind, OpPred};
use crate::report::is_known;
use crate::rng::Rng;

pub struct SchedOutcome {
    /// the schedule was actually forced (threads parked where intended)
    pub forced: bool,
    pub shape: String,
    pub problems: Vec<(String, Value)>,
    pub counters: Vec<String>,
}

/// `dropped` = the old writer is dropped while its merge thread is parked (the merge ends after
/// the successor's commit); otherwise the old writer is rolled back while its segment updater is
/// parked inside `end_merge` (the task was accepted before the kill).
pub fn stale_merge_schedule(rng: &mut Rng, dropped: bool) -> SchedOutcome {
    stale_merge_schedule_mode(rng, if dropped { 1 } else { 0 })
}

/// mode 0 = rolled back while the old updater is parked inside `end_merge` (before it saves),
/// mode 1 = writer dropped while the merge thread is parked,
/// mode 2 = rolled back while the old updater is parked INSIDE its `save_metas`, after it has
///          checked that it is alive (it resumes 300 ms later: either `rollback()` waited for
///          it, or it must not replace meta.json any more once its successor has committed).
pub fn stale_merge_schedule_mode(rng: &mut Rng, mode: u8) -> SchedOutcome {
    let dropped = mode == 1;
    let mut out = SchedOutcome {
        forced: false,
        shape: String::new(),
        problems: vec![],
        counters: vec![],
    };
    let cfg = ExecCfg { threads: 1, merge_policy: false, sort: None, budget_per_thread: 15_000_000 };
    let mon = MonDir::new(MonCfg { monitors: true, ..Default::default() });
    let mut ex = match Exec::create(Box::new(mon.clone()), cfg, Some(mon.clone())) {
        Ok(e) => e,
        Err(e) => {
            out.problems.push(("api-error:create".into(), json!(e)));
            return out;
        }
    };
    let mut g = HistGen::new();
    let nseg = rng.urange(2, 4);
    for _ in 0..nseg {
        for _ in 0..rng.urange(2, 8) {
            ex.step(&Op::Add(g.doc(rng, 2)));
        }
        ex.step(&Op::Commit);
    }
    let ids = ex.index.searchable_segment_ids().unwrap_or_default();
    if ids.len() < 2 {
        return out;
    }
    let gate1 = mon.add_gate(OpPred::kind(OpKind::OpenWrite).role("merge"), rng.below(4));
    let fut = ex.writer.as_mut().unwrap().merge(&ids);
    if !mon.wait_parked(gate1, Duration::from_secs(5)) {
        mon.release_all_gates();
        let _ = fut.wait();
        out.counters.push("stale_merge:merge_gate_not_reached".into());
        return out;
    }
    // deletes committed while the merge runs: end_merge has a .del file to write for the merged
    // segment, which is where the old updater is parked in the rolled-back variant
    let with_delete = mode == 0 || (mode == 1 && rng.bool());
    if with_delete {
        ex.step(&Op::DeleteTerm(Pred::Grp(0)));
        if rng.bool() {
            ex.step(&Op::DeleteTerm(Pred::Grp(1)));
        }
        ex.step(&Op::Add(g.doc(rng, 2)));
        ex.step(&Op::Commit);
    }
    let mut releaser = None;
    let (gate2, parked2) = if dropped {
        (gate1, true)
    } else if mode == 2 {
        // the first storage operation of save_metas after its is_alive check
        let gate2 = mon.add_gate(OpPred::kind(OpKind::SyncDir).role("updater"), 0);
        mon.release_gate(gate1);
        let parked = mon.wait_parked(gate2, Duration::from_secs(5));
        let mon2 = mon.clone();
        releaser = Some(std::thread::spawn(move || {
            std::thread::sleep(Duration::from_millis(300));
            mon2.release_gate(gate2);
        }));
        (gate2, parked)
    } else {
        let gate2 = mon.add_gate(OpPred::kind(OpKind::OpenWrite).role("updater").fkind("del"), 0);
        mon.release_gate(gate1);
        (gate2, mon.wait_parked(gate2, Duration::from_secs(5)))
    };
    out.counters.push(
        if dropped {
            "stale_merge:merge_thread_parked_across_writer_drop"
        } else if mode == 2 {
            if parked2 { "stale_merge:old_updater_parked_inside_save_metas" } else { "stale_merge:save_metas_gate_not_reached" }
        } else if parked2 {
            "stale_merge:old_updater_parked_in_end_merge"
        } else {
            "stale_merge:end_merge_wrote_no_del"
        }
        .into(),
    );
    // the writer is replaced and the replacement commits (a delete that hits, and adds)
    for _ in 0..rng.urange(0, 2) {
        ex.step(&Op::Add(g.doc(rng, 2)));
    }
    ex.step(&if dropped { Op::Reopen { wait_merges: false } } else { Op::Rollback });
    ex.step(&Op::DeleteTerm(Pred::Grp(rng.below(2))));
    for _ in 0..rng.urange(1, 3) {
        ex.step(&Op::Add(g.doc(rng, 2)));
    }
    ex.step(&Op::Commit);
    let mut errs = ex.check_committed(true);
    if let Some(r) = releaser.take() {
        let _ = r.join();
    }
    mon.release_gate(gate2);
    mon.release_all_gates();
    let outcome = match fut.wait() {
        Ok(_) => "ok",
        Err(_) => "err",
    };
    out.counters.push(format!("stale_merge:old_merge_returned_{outcome}"));
    if errs.is_empty() {
        errs = ex
            .check_committed(true)
            .into_iter()
            .map(|(s, d)| (format!("after-the-old-generation-finished:{s}"), d))
            .collect();
    }
    if errs.is_empty() {
        ex.step(&Op::Add(g.doc(rng, 2)));
        ex.step(&Op::Commit);
        errs = ex
            .check_committed(true)
            .into_iter()
            .map(|(s, d)| (format!("after-one-more-commit:{s}"), d))
            .collect();
    }
    for (sig, d) in ex.problems.drain(..) {
        if !is_known("C02", &sig) {
            errs.push((format!("live:{sig}"), d));
        }
    }
    for v in mon.take_violations() {
        errs.push((v.sig, v.detail));
    }
    out.forced = parked2;
    out.shape = format!(
        "{}:nseg={nseg}:{}:{outcome}",
        match mode {
            1 => "writer-dropped",
            2 => "rolled-back-inside-save_metas",
            _ => "rolled-back",
        },
        if with_delete { "delete-committed-during-merge" } else { "no-delete" }
    );
    out.problems = errs;
    out
}

/// Forced schedule for the crash window between the replacement of `meta.json` and the directory
/// sync that makes the rename durable (property C01/C10): the writer is dropped while its merge
/// thread is parked; the successor's commit - which makes files of the previous commit obsolete -
/// is parked at the `sync_directory` that FOLLOWS the replacement of `meta.json`; only then does
/// the old generation finish its merge. Whatever the old generation does at the end of its merge
/// (in particular a garbage collection driven by the shared segment-meta inventory, which the
/// successor's `store_meta` has just emptied of the previous commit) must not unlink a file that
/// the DURABLE `meta.json` still references: a power cut inside the window would otherwise come
/// back with a commit whose files are gone. The online monitor T3 of `MonDir` decides.
pub fn stale_gc_window_schedule(rng: &mut Rng) -> SchedOutcome {
    let mut out = SchedOutcome { forced: false, shape: String::new(), problems: vec![], counters: vec![] };
    let cfg = ExecCfg { threads: 1, merge_policy: false, sort: None, budget_per_thread: 15_000_000 };
    let mon = MonDir::new(MonCfg { monitors: true, ..Default::default() });
    let mut ex = match Exec::create(Box::new(mon.clone()), cfg, Some(mon.clone())) {
        Ok(e) => e,
        Err(e) => {
            out.problems.push(("api-error:create".into(), json!(e)));
            return out;
        }
    };
    let mut g = HistGen::new();
    let nseg = rng.urange(2, 4);
    for _ in 0..nseg {
        for _ in 0..rng.urange(2, 8) {
            ex.step(&Op::Add(g.doc(rng, 2)));
        }
        ex.step(&Op::Commit);
    }
    // a first committed delete: the segments it hits own a `.del` file, which the successor's
    // delete replaces (the old `.del` is then garbage as soon as the new meta is in memory)
    let first_delete = rng.bool();
    if first_delete {
        ex.step(&Op::DeleteTerm(Pred::Grp(0)));
        ex.step(&Op::Commit);
    }
    let ids = ex.index.searchable_segment_ids().unwrap_or_default();
    if ids.len() < 2 {
        return out;
    }
    // flavour 0: the writer is dropped while the merge thread is parked; flavour 1: the writer is
    // rolled back while the old updater is parked INSIDE end_merge (the task was accepted before
    // the kill; it goes on to the end of end_merge, where the garbage collection used to be)
    let flavour = rng.below(2);
    let gate1 = mon.add_gate(OpPred::kind(OpKind::OpenWrite).role("merge"), rng.below(4));
    let fut = ex.writer.as_mut().unwrap().merge(&ids);
    if !mon.wait_parked(gate1, Duration::from_secs(5)) {
        mon.release_all_gates();
        let _ = fut.wait();
        out.counters.push("stale_gc:merge_gate_not_reached".into());
        return out;
    }
    let mut held = gate1;
    if flavour == 1 {
        // a delete committed during the merge: the merged sources get a `.del` file and end_merge
        // has one to write for the merged segment, which is where the old updater is parked
        ex.step(&Op::DeleteTerm(Pred::Grp(0)));
        ex.step(&Op::Add(g.doc(rng, 2)));
        ex.step(&Op::Commit);
        let gate_em = mon.add_gate(OpPred::kind(OpKind::OpenWrite).role("updater").fkind("del"), 0);
        mon.release_gate(gate1);
        if !mon.wait_parked(gate_em, Duration::from_secs(5)) {
            mon.release_all_gates();
            let _ = fut.wait();
            out.counters.push("stale_gc:end_merge_wrote_no_del".into());
            return out;
        }
        held = gate_em;
        ex.step(&Op::Rollback);
    } else {
        ex.step(&Op::Reopen { wait_merges: false });
    }
    let gate1 = held;
    // first commit S1 of the successor: a segment of its own (group 7 only) and a delete that
    // gives the older segments a `.del` file of S1. S1 completes; it is the durable commit.
    for _ in 0..rng.urange(1, 4) {
        let mut d = g.doc(rng, 2);
        d.grp = 7;
        ex.step(&Op::Add(d));
    }
    let s1_delete = rng.bool();
    if s1_delete {
        ex.step(&Op::DeleteTerm(Pred::Grp(1)));
    }
    ex.step(&Op::Commit);
    // second commit S2: empties the segment S1 created (all of its files are then referenced by
    // nothing but S1) and replaces the `.del` files of S1
    ex.step(&Op::DeleteTerm(Pred::Grp(7)));
    if rng.bool() {
        ex.step(&Op::DeleteTerm(Pred::Grp(0)));
    }
    for _ in 0..rng.urange(1, 3) {
        ex.step(&Op::Add(g.doc(rng, 2)));
    }
    // second sync_directory of the successor's commit = the one behind the meta.json replacement
    let gate2 = mon.add_gate(OpPred::kind(OpKind::SyncDir).role("updater"), 1);
    let (tx, rx) = std::sync::mpsc::channel::<&'static str>();
    let mon2 = mon.clone();
    let orchestrator = std::thread::spawn(move || {
        let parked = mon2.wait_parked(gate2, Duration::from_secs(5));
        mon2.release_gate(gate1);
        let waiter = std::thread::spawn(move || {
            let r = fut.wait();
            let _ = tx.send(if r.is_ok() { "ok" } else { "err" });
        });
        // the old generation finishes (merge thread + end_merge on the old updater) while the
        // successor's commit stands inside the window
        let outcome = rx.recv_timeout(Duration::from_secs(3)).unwrap_or("timeout");
        mon2.release_gate(gate2);
        mon2.release_all_gates();
        let _ = waiter.join();
        (parked, outcome)
    });
    ex.step(&Op::Commit);
    let (parked, outcome) = orchestrator.join().unwrap_or((false, "orchestrator-panicked"));
    out.counters.push(
        if parked { "stale_gc:successor_parked_between_meta_replacement_and_dir_sync" } else { "stale_gc:window_gate_not_reached" }.into(),
    );
    out.counters.push(format!("stale_gc:old_merge_returned_{outcome}"));
    let mut errs = ex.check_committed(true);
    if errs.is_empty() {
        ex.step(&Op::Add(g.doc(rng, 2)));
        ex.step(&Op::Commit);
        errs = ex
            .check_committed(true)
            .into_iter()
            .map(|(s, d)| (format!("after-one-more-commit:{s}"), d))
            .collect();
    }
    for (sig, d) in ex.problems.drain(..) {
        if !is_known("C02", &sig) {
            errs.push((format!("live:{sig}"), d));
        }
    }
    for v in mon.take_violations() {
        errs.push((v.sig, v.detail));
    }
    out.forced = parked && outcome != "timeout";
    out.shape = format!(
        "gc-window:{}:nseg={nseg}:{}:{}:{outcome}",
        if flavour == 1 { "rolled-back-inside-end_merge" } else { "writer-dropped" },
        if first_delete { "del-file-replaced" } else { "no-earlier-delete" },
        if s1_delete { "s1-del-files-replaced" } else { "s1-segment-emptied-only" }
    );
    out.problems = errs;
    out
}
