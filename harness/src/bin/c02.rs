//! C02 — a commit publishes exactly the sequential effect of the operations before it.
use std::collections::{BTreeMap, BTreeSet};
use std::sync::atomic::{AtomicU64, Ordering};
use std::sync::{Arc, Mutex};

use serde_json::json;
use tantivy::indexer::NoMergePolicy;
use tantivy::{Index, IndexWriter};
use tvmon::hist::*;
use tvmon::mondir::{MonCfg, MonDir};
use tvmon::report::*;
use tvmon::rng::Rng;

fn seq_case(case: u64, rng: &mut Rng, rep: &mut Report) {
    let cfg = ExecCfg::random(rng, true);
    let len = rng.urange(5, 60);
    let mut gcfg = GenCfg::standard(len);
    if rng.chance(2, 3) {
        gcfg = gcfg.no_cutters();
    }
    if rng.chance(3, 4) {
        gcfg = gcfg.no_delete_all();
    }
    let mut g = HistGen::new();
    let ops = g.history(rng, &gcfg);
    let mon = MonDir::new(MonCfg {
        monitors: true,
        keep_payloads: false,
        noise_permille: if rng.bool() { 30 } else { 0 },
        noise_seed: rng.next_u64(),
        ..Default::default()
    });
    let mut ex = match Exec::create(Box::new(mon.clone()), cfg.clone(), Some(mon.clone())) {
        Ok(e) => e,
        Err(e) => {
            rep.violation("api-error:create", json!(e));
            return;
        }
    };
    rep.eval();
    let mut deletes_hit = 0usize;
    let mut max_segments = 0usize;
    let mut checked = 0u64;
    let mut kinds = BTreeSet::new();
    let mut failed_at = None;
    // `tainted`: delete_all_documents was called on the current writer instance (see
    // known_findings.txt: it reverts the opstamp counter and misses in-flight documents)
    let mut tainted = false;
    let mut tainted_at_failure = false;
    // documents of the current transaction that are in a segment register for certain
    // (prepare_commit() returned after them): even the known delete_all defect, which only
    // misses documents still in the indexing pipeline, removes those
    let mut added_since_commit: Vec<u64> = vec![];
    let mut flushed_for_certain: BTreeSet<u64> = BTreeSet::new();
    let mut must_vanish: BTreeSet<u64> = BTreeSet::new();
    for (i, op) in ops.iter().enumerate() {
        match op {
            Op::DeleteAll => {
                tainted = true;
                must_vanish.extend(flushed_for_certain.iter().copied());
            }
            Op::Add(d) => added_since_commit.push(d.id),
            Op::Batch(b) => {
                for o in b {
                    if let BOp::Add(d) = o {
                        added_since_commit.push(d.id);
                    }
                }
            }
            Op::PrepDrop => flushed_for_certain.extend(added_since_commit.iter().copied()),
            Op::Commit | Op::PrepCommit { abort: false, .. } => {
                added_since_commit.clear();
                flushed_for_certain.clear();
            }
            _ => {}
        }
        kinds.insert(op.kind());
        rep.count(&format!("op:{}", op.kind()), 1);
        // does this delete hit something in the model (for non-triviality)?
        let before = ex.model.would_commit();
        let out = ex.step(op);
        let _ = out;
        if matches!(op, Op::DeleteTerm(_) | Op::DeleteQuery(_) | Op::Batch(_)) {
            let after = ex.model.would_commit();
            if before.keys().any(|k| !after.contains_key(k)) {
                deletes_hit += 1;
            }
        }
        // a fresh reader must show the last commit at ANY time (uncommitted work, and merges of
        // committed segments, never change what is published): observe after every commit-like
        // operation and at random points in between
        let observe = matches!(
            op,
            Op::Commit | Op::PrepCommit { .. } | Op::Rollback | Op::Reopen { .. }
        ) || i + 1 == ops.len()
            || rng.chance(1, 6);
        if observe {
            let errs = ex.check_committed(true);
            checked += 1;
            max_segments = max_segments.max(ex.reader.searcher().segment_readers().len());
            for (sig, d) in errs {
                ex.problems.push((sig, json!({"after_op_index": i, "detail": d})));
            }
        }
        // the stale commit_opstamp() known finding fires on every commit: report it, go on
        let mut keep = vec![];
        for (sig, d) in ex.problems.drain(..) {
            if sig.starts_with("opstamp:writer-commit_opstamp") && is_known("C02", &sig) {
                rep.violation(sig, json!({"case": case, "detail": d}));
            } else {
                keep.push((sig, d));
            }
        }
        ex.problems = keep;
        if !ex.problems.is_empty() {
            failed_at = Some(i);
            tainted_at_failure = tainted;
            break;
        }
        if matches!(op, Op::Rollback | Op::Reopen { .. } | Op::PrepCommit { abort: true, .. }) {
            // a fresh IndexWriter (new stamper from meta.json, new delete queue)
            tainted = false;
            added_since_commit.clear();
            flushed_for_certain.clear();
            must_vanish.clear();
        }
    }
    ex.drain_merges();
    rep.count("observations_after_commit_rollback_reopen", checked);
    rep.count("commits", ex.n_commits);
    for v in mon.take_violations() {
        ex.problems.push((v.sig, v.detail));
    }
    let uses_delete_all = tainted_at_failure;
    if !ex.problems.is_empty() {
        let hist: Vec<_> = ops
            .iter()
            .take(failed_at.map(|i| i + 1).unwrap_or(ops.len()))
            .map(|o| o.brief())
            .collect();
        for (sig, d) in ex.problems.drain(..) {
            // histories using delete_all_documents are keyed separately (known-finding class)
            let flushed_survivor = d["detail"]["extra_ids"]
                .as_array()
                .map(|a| a.iter().filter_map(|v| v.as_u64()).any(|id| must_vanish.contains(&id)))
                .unwrap_or(false);
            let sig = if uses_delete_all && flushed_survivor {
                // not the known defect: these documents were in a registered segment when
                // delete_all_documents() was called
                format!("{sig}[flushed-segment-survived-delete_all]")
            } else if uses_delete_all {
                format!("{sig}[after-delete_all-on-this-writer]")
            } else {
                sig
            };
            rep.violation(
                sig,
                json!({"case": case, "cfg": cfg.describe(), "detail": d, "history": hist}),
            );
        }
    }
    if deletes_hit >= 1 && max_segments >= 2 {
        let k: Vec<&str> = kinds.into_iter().collect();
        rep.nontrivial(format!("{}|{}", k.join(","), cfg.describe()));
    }
    if case < 3 {
        rep.sample(json!({"cfg": cfg.describe(), "ops": ops.iter().take(25).map(|o| o.brief()).collect::<Vec<_>>(),
            "commits": ex.n_commits, "max_segments": max_segments, "deletes_that_hit": deletes_hit}));
    }
}

/// Concurrent producers sharing `&IndexWriter`: per-document interval-order check.
/// For a document d (unique id) and a delete D whose predicate matches d, both before the same
/// commit:  ret(D) < call(d)  => d must survive D;  ret(d) < call(D) => d must be gone;
/// overlapping calls => either.
fn producers_case(case: u64, rng: &mut Rng, rep: &mut Report) {
    let hs = hschema();
    let nprod = rng.urange(2, 5);
    let threads = *rng.pick(&[1usize, 2, 4]);
    let index = Index::create_in_ram(hs.schema.clone());
    let mut writer: IndexWriter = match index.writer_with_num_threads(threads, 15_000_000 * threads) {
        Ok(w) => w,
        Err(e) => {
            rep.violation("api-error:writer", json!(e.to_string()));
            return;
        }
    };
    writer.set_merge_policy(Box::new(NoMergePolicy));
    rep.eval();
    let clock = Arc::new(AtomicU64::new(1));
    let rounds = rng.urange(1, 3);
    let groups = 3u64;
    let next_id = Arc::new(AtomicU64::new(1));
    // surviving set according to definite constraints
    let mut must_alive: BTreeSet<u64> = BTreeSet::new();
    let mut may_alive: BTreeSet<u64> = BTreeSet::new();
    let mut overlaps = 0u64;
    let mut definite_kills = 0u64;
    let mut old_grp: BTreeMap<u64, u64> = BTreeMap::new();
    for round in 0..rounds {
        #[derive(Clone, Debug)]
        enum Ev {
            Add { id: u64, grp: u64, call: u64, ret: u64, stamp: u64 },
            Del { grp: u64, call: u64, ret: u64, stamp: u64 },
        }
        let log: Arc<Mutex<Vec<Ev>>> = Arc::new(Mutex::new(vec![]));
        let seeds: Vec<u64> = (0..nprod).map(|_| rng.next_u64()).collect();
        let nops = rng.urange(5, 40);
        std::thread::scope(|s| {
            for p in 0..nprod {
                let w = &writer;
                let hs = &hs;
                let clock = clock.clone();
                let log = log.clone();
                let next_id = next_id.clone();
                let seed = seeds[p];
                s.spawn(move || {
                    let mut r = Rng::new(seed);
                    for _ in 0..nops {
                        if r.chance(3, 4) {
                            let id = next_id.fetch_add(1, Ordering::SeqCst);
                            let grp = r.below(groups);
                            let d = MDoc { id, grp, val: Some(0), body: vec![0], tag: 0, pad: 0 };
                            let call = clock.fetch_add(1, Ordering::SeqCst);
                            let res = w.add_document(d.to_doc(hs));
                            let ret = clock.fetch_add(1, Ordering::SeqCst);
                            if let Ok(stamp) = res {
                                log.lock().unwrap().push(Ev::Add { id, grp, call, ret, stamp });
                            }
                        } else {
                            let grp = r.below(groups);
                            let call = clock.fetch_add(1, Ordering::SeqCst);
                            let stamp = w.delete_term(Pred::Grp(grp).term(hs).unwrap());
                            let ret = clock.fetch_add(1, Ordering::SeqCst);
                            log.lock().unwrap().push(Ev::Del { grp, call, ret, stamp });
                        }
                        if r.chance(1, 4) {
                            std::thread::yield_now();
                        }
                    }
                });
            }
        });
        let commit_stamp = match writer.commit() {
            Ok(s) => s,
            Err(e) => {
                rep.violation("api-error:commit", json!(e.to_string()));
                return;
            }
        };
        let evs = log.lock().unwrap().clone();
        rep.count("producer_ops", evs.len() as u64);
        // previous survivors can be hit by this round's deletes (all of them are later)
        let dels: Vec<(u64, u64, u64)> = evs
            .iter()
            .filter_map(|e| match e {
                Ev::Del { grp, call, ret, .. } => Some((*grp, *call, *ret)),
                _ => None,
            })
            .collect();
        let mut stamps = BTreeSet::new();
        for e in &evs {
            let st = match e {
                Ev::Add { stamp, .. } | Ev::Del { stamp, .. } => *stamp,
            };
            if !stamps.insert(st) {
                rep.violation("producers:duplicate-opstamp", json!({"opstamp": st}));
            }
            if st >= commit_stamp {
                rep.violation(
                    "opstamp:commit-not-larger-than-included-op",
                    json!({"commit": commit_stamp, "op": st}),
                );
            }
        }
        let _ = round;
        let mut id_grp: BTreeMap<u64, u64> = BTreeMap::new();
        for e in &evs {
            if let Ev::Add { id, grp, .. } = e {
                id_grp.insert(*id, *grp);
            }
        }
        // survivors of earlier rounds: every delete of this round is definitely after them
        let deleted_groups: BTreeSet<u64> = dels.iter().map(|d| d.0).collect();
        must_alive.retain(|id| !deleted_groups.contains(&old_grp[id]));
        may_alive.retain(|id| !deleted_groups.contains(&old_grp[id]));
        for e in &evs {
            if let Ev::Add { id, grp, call, ret, .. } = e {
                let mut definitely_dead = false;
                let mut maybe_dead = false;
                for (g, dcall, dret) in &dels {
                    if g != grp {
                        continue;
                    }
                    if *ret < *dcall {
                        definitely_dead = true;
                    } else if *dret < *call {
                        // delete completed before the add started: cannot hit it
                    } else {
                        maybe_dead = true;
                        overlaps += 1;
                    }
                }
                if definitely_dead {
                    definite_kills += 1;
                } else if maybe_dead {
                    may_alive.insert(*id);
                } else {
                    must_alive.insert(*id);
                    may_alive.insert(*id);
                }
            }
        }
        old_grp.extend(id_grp);
        let reader = match index.reader() {
            Ok(r) => r,
            Err(e) => {
                rep.violation("api-error:reader", json!(e.to_string()));
                return;
            }
        };
        let searcher = reader.searcher();
        match live_ids(&searcher) {
            Err(e) => rep.violation("producers:dump", json!(e)),
            Ok(ids) => {
                let lost: Vec<u64> = must_alive.difference(&ids).copied().take(10).collect();
                let ghosts: Vec<u64> = ids.difference(&may_alive).copied().take(10).collect();
                if !lost.is_empty() {
                    rep.violation(
                        "producers:doc-lost-although-no-delete-could-hit-it",
                        json!({"case": case, "ids": lost, "round": round}),
                    );
                }
                if !ghosts.is_empty() {
                    rep.violation(
                        "producers:doc-survives-a-delete-that-definitely-followed-it",
                        json!({"case": case, "ids": ghosts, "round": round}),
                    );
                }
                // resolve the ambiguity with what was observed
                may_alive = ids.clone();
                must_alive = ids;
            }
        }
    }
    rep.count("producer_overlapping_add_delete_pairs", overlaps);
    rep.count("producer_definite_kills", definite_kills);
    if definite_kills > 0 {
        rep.nontrivial(format!(
            "producers:n{nprod}:t{threads}:ov{}",
            overlaps.min(3)
        ));
    }
}


// ---------------------------------------------------------------------------------------------
// forced producer schedules through the failpoints of the hook commit

struct ParkGate {
    state: Mutex<(bool, bool)>, // (parked, released)
    cv: std::sync::Condvar,
}

thread_local! {
    static PARK_AT: std::cell::RefCell<Option<(String, Arc<ParkGate>)>> = const { std::cell::RefCell::new(None) };
}

fn install_failpoint_callbacks() {
    static ONCE: std::sync::Once = std::sync::Once::new();
    ONCE.call_once(|| {
        for name in ["verif::delete_query::stamped", "verif::add_document::stamped", "verif::run::stamped"] {
            let n = name.to_string();
            let _ = fail::cfg_callback(name, move || {
                let gate = PARK_AT.with(|p| {
                    let b = p.borrow();
                    match &*b {
                        Some((which, g)) if *which == n => Some(g.clone()),
                        _ => None,
                    }
                });
                if let Some(g) = gate {
                    // park only once per armed thread
                    PARK_AT.with(|p| *p.borrow_mut() = None);
                    let mut st = g.state.lock().unwrap();
                    st.0 = true;
                    g.cv.notify_all();
                    let deadline = std::time::Instant::now() + std::time::Duration::from_secs(20);
                    while !st.1 && std::time::Instant::now() < deadline {
                        let (s2, _) = g.cv.wait_timeout(st, std::time::Duration::from_millis(100)).unwrap();
                        st = s2;
                    }
                }
            });
        }
    });
}

/// One producer is parked between drawing its opstamp and publishing its operation while the
/// main thread adds, deletes, cuts a segment; checked by interval order.
fn forced_producer_case(case: u64, rng: &mut Rng, rep: &mut Report) {
    install_failpoint_callbacks();
    let hs = hschema();
    let threads = *rng.pick(&[1usize, 2]);
    let index = Index::create_in_ram(hs.schema.clone());
    let mut writer: IndexWriter = match index.writer_with_num_threads(threads, 15_000_000 * threads) {
        Ok(w) => w,
        Err(e) => {
            rep.violation("api-error:writer", json!(e.to_string()));
            return;
        }
    };
    writer.set_merge_policy(Box::new(NoMergePolicy));
    rep.eval();
    let g = 1u64; // the group the parked operation is about
    let mut next_id = 1u64;
    let mk = |id: u64, grp: u64, pad: usize| MDoc { id, grp, val: Some(0), body: vec![0], tag: 0, pad };
    // phase 1: documents definitely before the parked operation
    let mut before: Vec<(u64, u64)> = vec![];
    let committed_first = rng.bool();
    for _ in 0..rng.urange(1, 6) {
        let grp = rng.below(3);
        if writer.add_document(mk(next_id, grp, 0).to_doc(&hs)).is_err() {
            rep.violation("api-error:add", json!(null));
            return;
        }
        before.push((next_id, grp));
        next_id += 1;
    }
    if committed_first {
        if let Err(e) = writer.commit() {
            rep.violation("api-error:commit", json!(e.to_string()));
            return;
        }
    }
    let which = *rng.pick(&["delete", "delete", "add", "run"]);
    let gate = Arc::new(ParkGate { state: Mutex::new((false, false)), cv: std::sync::Condvar::new() });
    let parked_id = next_id;
    next_id += 1;
    let mut during: Vec<(u64, u64)> = vec![];
    let mut main_deleted_g = false;
    let mut cut = false;
    let mut parked = false;
    std::thread::scope(|s| {
        let w = &writer;
        let hsr = &hs;
        let gate2 = gate.clone();
        let h = s.spawn(move || {
            let fp = match which {
                "delete" => "verif::delete_query::stamped",
                "add" => "verif::add_document::stamped",
                _ => "verif::run::stamped",
            };
            PARK_AT.with(|p| *p.borrow_mut() = Some((fp.to_string(), gate2)));
            match which {
                "delete" => {
                    w.delete_term(Pred::Grp(g).term(hsr).unwrap());
                }
                "add" => {
                    let _ = w.add_document(mk(parked_id, g, 0).to_doc(hsr));
                }
                _ => {
                    let _ = w.run(vec![
                        tantivy::indexer::UserOperation::Delete(Pred::Grp(g).term(hsr).unwrap()),
                        tantivy::indexer::UserOperation::Add(mk(parked_id, g, 0).to_doc(hsr)),
                    ]);
                }
            }
            PARK_AT.with(|p| *p.borrow_mut() = None);
        });
        // wait until the producer is parked after its stamp
        {
            let mut st = gate.state.lock().unwrap();
            let deadline = std::time::Instant::now() + std::time::Duration::from_secs(5);
            while !st.0 && std::time::Instant::now() < deadline {
                let (s2, _) = gate.cv.wait_timeout(st, std::time::Duration::from_millis(50)).unwrap();
                st = s2;
            }
            parked = st.0;
        }
        if parked {
            // operations that overlap the parked one
            for _ in 0..rng.urange(1, 5) {
                let grp = rng.below(3);
                let _ = w.add_document(mk(next_id, grp, 0).to_doc(hsr));
                during.push((next_id, grp));
                next_id += 1;
            }
            if rng.bool() {
                // cut a segment while the parked operation is stamped but unpublished
                let _ = w.add_document(mk(next_id, 2, CUTTER_PAD).to_doc(hsr));
                during.push((next_id, 2));
                next_id += 1;
                cut = true;
                std::thread::sleep(std::time::Duration::from_millis(30));
            }
            if rng.bool() {
                w.delete_term(Pred::Grp(g).term(hsr).unwrap());
                main_deleted_g = true;
                // adds after main's own delete returned
                let _ = w.add_document(mk(next_id, g, 0).to_doc(hsr));
                during.push((next_id, g));
                next_id += 1;
            }
        }
        {
            let mut st = gate.state.lock().unwrap();
            st.1 = true;
            gate.cv.notify_all();
        }
        let _ = h.join();
    });
    // phase 3: definitely after everything
    let mut after: Vec<(u64, u64)> = vec![];
    for _ in 0..rng.urange(0, 3) {
        let grp = rng.below(3);
        let _ = writer.add_document(mk(next_id, grp, 0).to_doc(&hs));
        after.push((next_id, grp));
        next_id += 1;
    }
    if let Err(e) = writer.commit() {
        rep.violation("api-error:commit", json!(e.to_string()));
        return;
    }
    let ids = match index.reader().map(|r| live_ids(&r.searcher())) {
        Ok(Ok(i)) => i,
        other => {
            rep.violation("forced-producers:dump", json!(format!("{other:?}")));
            return;
        }
    };
    rep.count(if parked { "forced_producer_parked" } else { "forced_producer_gate_not_reached" }, 1);
    let deleting = which == "delete" || which == "run";
    let mut problems = vec![];
    for (id, grp) in &before {
        // added and returned before the parked operation was even called
        let must_die = (deleting || main_deleted_g) && *grp == g;
        if must_die && ids.contains(id) {
            problems.push(format!("doc {id} (grp {grp}) added before a delete survives it"));
        }
        if !must_die && !ids.contains(id) {
            problems.push(format!("doc {id} (grp {grp}) lost although no delete matches it"));
        }
    }
    for (id, grp) in &during {
        // overlapping the parked operation: may or may not be hit by it; by main's own delete
        // only if added before it - keep it simple: group g is free, others must survive
        if *grp != g && !ids.contains(id) {
            problems.push(format!("doc {id} (grp {grp}) lost although no delete matches it"));
        }
    }
    for (id, _grp) in &after {
        if !ids.contains(id) {
            problems.push(format!("doc {id} added after every delete returned is missing"));
        }
    }
    if which != "delete" {
        // the parked add itself: in `run` its own batch deletes g before adding it
        if !ids.contains(&parked_id) && !main_deleted_g {
            problems.push(format!("parked add {parked_id} is missing"));
        }
    }
    let known: std::collections::BTreeSet<u64> = before.iter().chain(&during).chain(&after).map(|x| x.0).chain([parked_id]).collect();
    for id in &ids {
        if !known.contains(id) {
            problems.push(format!("unknown doc {id}"));
        }
    }
    for p in problems {
        rep.violation(
            format!("forced-producers:{}", p.split(' ').skip(2).take(6).collect::<Vec<_>>().join("-").chars().filter(|c| !c.is_ascii_digit() && *c != '(' && *c != ')').collect::<String>()),
            json!({"case": case, "parked_op": which, "problem": p, "committed_first": committed_first, "cut": cut, "main_deleted_g": main_deleted_g}),
        );
    }
    if parked {
        rep.nontrivial(format!("forced:{which}:c{}:cut{}:md{}:t{threads}", committed_first as u8, cut as u8, main_deleted_g as u8));
    }
}

/// Forced schedule (shared, `tvmon::sched`): a merge of the previous writer generation ends after
/// the successor has committed - nothing it still does may change what is published.
fn stale_merge_case(case: u64, rng: &mut Rng, rep: &mut Report) {
    rep.eval();
    let mode = rng.below(3) as u8;
    let out = tvmon::sched::stale_merge_schedule_mode(rng, mode);
    for c in &out.counters {
        rep.count(c, 1);
    }
    for (sig, d) in out.problems {
        rep.violation(format!("stale-merge:{sig}"), json!({"case": case, "shape": out.shape, "detail": d}));
    }
    if out.forced {
        rep.nontrivial(format!("stale-merge:{}", out.shape));
    }
}

fn main() {
    let ctx = Ctx::from_env("C02", "exploration");
    let n_seq = ctx.scale(160, 6000) as u64;
    let n_prod = ctx.scale(60, 3000) as u64;
    let mut rep = run_cases(&ctx, "seq", n_seq, seq_case);
    rep.merge(run_cases(&ctx, "producers", n_prod, producers_case));
    rep.merge(run_cases(&ctx, "forced-producers", ctx.scale(60, 3000) as u64, forced_producer_case));
    rep.merge(run_cases(&ctx, "stale-merge", ctx.scale(40, 2000) as u64, stale_merge_case));
    simple_finish(
        &ctx,
        rep,
        "case = one generated history (5-60 ops over add/delete_term/delete_query/run/delete_all/commit/prepare+payload/abort/rollback/merge/gc/reopen, 1-8 threads, merge policy on/off, sorted or not) checked against the sequential model after every commit, rollback and reopen (all fields, exactly-once, term/range queries, opstamps, payload); plus concurrent-producer cases checked by interval order. Non-trivial = at least one delete removed a document and the searcher had >=2 segments (or, for producer cases, at least one delete definitely ordered after a matching add). Distinct = set of op kinds x writer configuration.",
        ctx.scale(20, 200),
        &["the model is sequential replay in call order (DESIGN.md §4)", "interval order is taken from a global atomic clock read before call and after return"],
    );
}
